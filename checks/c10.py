"""C10 — numerical failures inside a solve are contained and reported as documented.

Fault enumeration: for every generated instance a fault-free instrumented run records every factor() and solve()
call of the KKT solver; then each call index in turn is made to raise ArithmeticError (exhaustive per instance)."""
import numpy as np
from hypothesis import strategies as st
from vlib.harness import Violation, run_given
from vlib import ref_cone as rc, gen_cone as gc, judge, runlp
from checks import c03

from cvxopt import matrix, spmatrix, sparse, solvers, misc, blas

OPTS = {"show_progress": False}
KNOWN = {}


class Injector:
    """Monkey-patches misc.kkt_ldl (the solvers are called with kktsolver='ldl') so that factor/solve calls are
    logged and the `fail_at`-th event raises ArithmeticError once."""
    def __init__(self, fail_at=None, also=None):
        self.events = []          # ('factor'|'solve', n_factor_calls_so_far)
        self.fail_at = fail_at
        self.also = also          # optional second event index that fails as well (the retry after a restore)
        self.fired = False
        self.fired2 = False
        self.nfactor = 0
        self.on_factor = None     # optional observer of the arguments of every factor call (used by C07 'restore')

    def hit(self, kind):
        idx = len(self.events)
        self.events.append((kind, self.nfactor))
        if self.fail_at is not None and idx == self.fail_at and not self.fired:
            self.fired = True
            raise ArithmeticError("injected failure in %s call (event %d)" % (kind, idx))
        if self.also is not None and idx == self.also and self.fired and not self.fired2:
            self.fired2 = True
            raise ArithmeticError("injected failure in %s call (event %d, second failure)" % (kind, idx))

    def __enter__(self):
        J = self
        self.orig = misc.kkt_ldl

        def kkt_ldl(*a, **kw):
            fac = J.orig(*a, **kw)

            def factor(*fa, **fk):
                J.nfactor += 1
                if J.on_factor is not None:
                    J.on_factor(fa, fk)
                J.hit("factor")
                f = fac(*fa, **fk)

                def solve(x, y, z):
                    J.hit("solve")
                    return f(x, y, z)
                return solve
            return factor
        misc.kkt_ldl = kkt_ldl
        return self

    def __exit__(self, *a):
        misc.kkt_ldl = self.orig


# ------------------------------------------------------------------ instances

@st.composite
def case_strategy(draw):
    solver = draw(st.sampled_from(["conelp", "conelp", "coneqp", "coneqp", "cpl", "cp"]))
    kinds = draw(st.sampled_from(["l", "lq", "ls", "lqs", "q", "s"]))
    if solver in ("conelp", "coneqp"):
        prob = draw(gc.cone_case(kind="feas", kinds=kinds, qp=(solver == "coneqp"), max_n=4))
    else:
        prob = draw(gc.cone_case(kind="feas", kinds=kinds, qp=True, max_n=3))
    N = rc.cdim(prob["dims"])
    return dict(solver=solver, prob=prob,
                start=draw(st.sampled_from(["none", "none", "both", "primal"])),
                start_data=dict(su=[draw(gc.dy(-4, 4)) for _ in range(N)], zu=[draw(gc.dy(-4, 4)) for _ in range(N)],
                                xs=draw(st.integers(-3, 3)), ys=draw(st.integers(-3, 3)), delta=1.0),
                refinement=draw(st.sampled_from([None, 0, 1])),
                nocone=draw(st.integers(0, 9)) == 0)


def run_instance(case, mat, inj):
    """One solve under injector `inj`; returns ('result', sol) or ('raised', exc)."""
    solver = case["solver"]
    dims = mat["dims"]
    opts = dict(OPTS)
    if case["refinement"] is not None:
        opts["refinement"] = case["refinement"]
    n = mat["n"]
    G, h = gc.cvx_dense(mat["G"]), gc.cvx_dense(mat["h"])
    A, b = gc.cvx_dense(mat["A"]), gc.cvx_dense(mat["b"])
    try:
        if solver == "conelp":
            cfg = dict(entry="conelp", kkt="ldl", solver=None, start=case["start"], opts=opts, spG=False, spA=False,
                       start_data=case["start_data"])
            return "result", runlp.call(cfg, mat, options_override=opts)
        if solver == "coneqp":
            iv = None
            if case["start"] == "both":
                d = case["start_data"]
                iv = {"x": gc.cvx_dense(np.full(n, d["xs"] / 2.0)), "s": gc.cvx_dense(gc.interior(d["su"], 1.0, dims)),
                      "z": gc.cvx_dense(gc.interior(d["zu"], 1.0, dims))}
            if case["nocone"]:
                return "result", solvers.coneqp(gc.cvx_dense(mat["P"] + np.eye(n)), gc.cvx_dense(mat["q"]), None, None, None,
                                                A, b, kktsolver="ldl", options=opts)
            return "result", solvers.coneqp(gc.cvx_dense(mat["P"]), gc.cvx_dense(mat["q"]), G, h, dims, A, b,
                                            initvals=iv, kktsolver="ldl", options=opts)
        P = mat["P"] + 0.5 * np.eye(n)
        Pm = gc.cvx_dense(P)
        q = gc.cvx_dense(mat["q"])
        if solver == "cp":
            def F(x=None, z=None):
                if x is None:
                    return 0, matrix(0.0, (n, 1))
                g = Pm * x + q
                f = 0.5 * (x.T * Pm * x)[0] + (q.T * x)[0]
                if z is None:
                    return f, g.T
                return f, g.T, z[0] * Pm
            return "result", solvers.cp(F, G, h, dims, A, b, kktsolver="ldl", options=opts)
        # cpl: linear objective q'x, one convex quadratic constraint 0.5 x'Px - r <= 0 containing the planted point
        x0 = mat["x0"]
        r = 0.5 * float(x0 @ P @ x0) + 1.0

        def Fl(x=None, z=None):
            if x is None:
                return 1, gc.cvx_dense(x0)
            g = Pm * x
            f = matrix([0.5 * (x.T * g)[0] - r])
            if z is None:
                return f, g.T
            return f, g.T, z[0] * Pm
        return "result", solvers.cpl(q, Fl, G, h, dims, A, b, kktsolver="ldl", options=opts)
    except Exception as e:
        return "raised", e


def event_iteration(case, events, k):
    """Iteration in which event k happened, or -1 for the start-up phase (initial point computation)."""
    solver = case["solver"]
    nf = events[k][1]                 # factor calls made up to and including this event
    if solver == "conelp":
        startup = 0 if case["start"] == "both" else 1
    elif solver == "coneqp":
        if case["nocone"]:
            return -1
        startup = 0 if case["start"] == "both" else 1
    else:
        startup = 0
    return nf - 1 - startup


def check_unknown(case, mat, sol, it_e, where):
    solver = case["solver"]
    dims = mat["dims"]
    msgs = []
    if solver in ("conelp", "coneqp"):
        for k in ("x", "y", "s", "z"):
            if sol.get(k) is None:
                msgs.append("'unknown' result has %s = None" % k)
        if msgs:
            return msgs
        qp = solver == "coneqp"
        c = mat["q"] if qp else mat["c"]
        D = judge.Data(c, mat["G"], mat["h"], mat["A"], mat["b"], dims, P=mat["P"] if qp else None, q=c if qp else None)
        v, _ = judge.unpack_solution(sol, dims, solver)
        x, s, y, z = v["x"], v["s"], v["y"], v["z"]
        if not all(np.all(np.isfinite(t)) for t in (x, s, y, z)):
            return ["non-finite iterates returned with 'unknown'"]
        r = judge.recompute_qp(D, x, s, y, z) if qp else judge.recompute_lp(D, x, s, y, z)
        if D.N and not (r["pslack"] > 0 and r["dslack"] > 0):
            msgs.append("returned s, z not strictly inside the cone: min slacks %.3e, %.3e" % (r["pslack"], r["dslack"]))

        def fld(name, val, scale):
            rep = sol.get(name)
            if not judge.isnum(rep) or not judge.close(rep, val, scale):
                msgs.append("field %r = %r but recomputed from the returned vectors %r" % (name, rep, val))
        fld("gap", r["gap"], r["gap_scale"])
        fld("primal objective", r["pcost"], r["pcost_scale"])
        fld("dual objective", r["dcost"], r["dcost_scale"] + r["gap_scale"])
        fld("primal infeasibility", r["pres"], r["pres_scale"])
        fld("dual infeasibility", r["dres"], r["dres_scale"])
        if D.N:
            fld("primal slack", r["pslack"], max(1.0, r["ns"]))
            fld("dual slack", r["dslack"], max(1.0, r["nz"]))
        it = sol.get("iterations")
        if not isinstance(it, int) or it < 0 or it > max(it_e, 0):
            msgs.append("'iterations' = %r but the failure was injected in iteration %d" % (it, it_e))
    else:
        for k in ("x", "snl", "sl", "znl", "zl"):
            if sol.get(k) is None:
                msgs.append("'unknown' result has %s = None" % k)
        if msgs:
            return msgs
        sl, zl = rc.vec(sol["sl"]), rc.vec(sol["zl"])
        snl, znl = rc.vec(sol["snl"]), rc.vec(sol["znl"])
        if rc.cdim(dims) and not (rc.min_slack(sl, dims) > 0 and rc.min_slack(zl, dims) > 0):
            msgs.append("returned sl, zl not strictly inside the cone")
        if len(snl) and not (snl.min() > 0 and znl.min() > 0):
            msgs.append("returned snl, znl not positive")
        gap = float(snl @ znl) + rc.sdot(sl, zl, dims)
        rep = sol.get("gap")
        sc = judge.nrm(sl) * judge.nrm(zl) + judge.nrm(snl) * judge.nrm(znl)
        if solver == "cp":
            # cp drops the epigraph components of snl, znl from the result; the reported gap still contains their
            # (nonnegative) product, so only an inequality can be recomputed
            if not judge.isnum(rep) or gap > rep + judge.ROUND * sc + judge.TINY:
                msgs.append("field 'gap' = %r smaller than the gap %r of the returned vectors" % (rep, gap))
        elif not judge.isnum(rep) or not judge.close(rep, gap, sc):
            msgs.append("field 'gap' = %r but recomputed %r" % (rep, gap))
        if solver == "cpl":
            # "'primal objective', 'dual objective' ... give the primal objective c'x, the dual objective, calculated as
            # c'x + znl'f(x) + zl'(Gx - h) + y'(Ax - b)": recomputed from the returned vectors and the caller's data
            n = mat["n"]
            xv = rc.vec(sol["x"])
            yv = rc.vec(sol["y"]) if sol.get("y") is not None else np.zeros(0)
            Pq = mat["P"] + 0.5 * np.eye(n)
            r_ = 0.5 * float(mat["x0"] @ Pq @ mat["x0"]) + 1.0
            fx = np.array([0.5 * float(xv @ Pq @ xv) - r_])
            Gs, hs = mat["Gs"], mat["hs"]
            pc = float(mat["q"] @ xv)
            dc = pc + float(znl @ fx) + rc.sdot(zl, Gs @ xv - hs, dims) + (float(yv @ (mat["A"] @ xv - mat["b"])) if len(yv) else 0.0)
            sc1 = judge.nrm(mat["q"]) * judge.nrm(xv) + 1.0
            sc2 = sc1 + judge.nrm(znl) * (abs(float(fx[0])) + 1.0) + judge.nrm(zl) * (judge.nrm(Gs @ xv) + judge.nrm(hs)) + \
                judge.nrm(yv) * (judge.nrm(mat["A"] @ xv) + judge.nrm(mat["b"]) if len(yv) else 0.0)
            for name, val, sc_ in (("primal objective", pc, sc1), ("dual objective", dc, sc2)):
                rep = sol.get(name)
                if not judge.isnum(rep) or not judge.close(rep, val, sc_):
                    msgs.append("field %r = %r but the returned vectors give %r" % (name, rep, val))
        # slack fields: smallest margin of (snl, sl) resp. (znl, zl) to the boundary of the cone
        for name, nl, lin in (("primal slack", snl, sl), ("dual slack", znl, zl)):
            parts = ([float(nl.min())] if len(nl) else []) + ([rc.min_slack(lin, dims)] if rc.cdim(dims) else [])
            if not parts:
                continue
            val = min(parts)
            rep = sol.get(name)
            scale = max(1.0, judge.nrm(lin), judge.nrm(nl))
            if solver == "cp":
                # the epigraph component is not returned: the reported minimum may be smaller, never larger
                if not judge.isnum(rep) or rep > val + judge.ROUND * scale + judge.TINY:
                    msgs.append("field %r = %r larger than the margin %r of the returned vectors" % (name, rep, val))
            elif not judge.isnum(rep) or not judge.close(rep, val, scale):
                msgs.append("field %r = %r but the returned vectors have margin %r" % (name, rep, val))
    return msgs


def oracle(case, stats=None):
    solver = case["solver"]
    prob = case["prob"]
    mat = c03.qp_data(prob) if "B" in prob else gc.materialize(prob)
    ok = mat.get("qp_rank_ok", mat["rank_ok"]) if solver != "conelp" else mat["rank_ok"]
    labels = ["solver:" + solver, "start:" + case["start"]]
    if not ok:
        if stats is not None:
            stats.evaluated(case, False, labels + ["skipped:rank"])
        return
    with Injector(None) as base:
        kind, res = run_instance(case, mat, base)
    if kind == "raised":
        if stats is not None:
            stats.evaluated(case, False, labels + ["fault_free_run_raised:" + type(res).__name__])
        return
    events = list(base.events)
    nontriv = 0
    plan = [(k, None) for k in range(len(events))]
    if solver in ("cpl", "cp"):
        # cpl restores a saved iterate and factors again when a factorization fails during a series of relaxed line
        # searches: the factorization of the retry (the next event of that run) is made to fail as well
        plan += [(k, k + 1) for k in range(len(events)) if events[k][0] == "factor" and event_iteration(case, events, k) >= 1]
    for (k, k2) in plan:
        it_e = event_iteration(case, events, k)
        ekind = events[k][0]
        with Injector(k, k2) as inj:
            kind, res = run_instance(case, mat, inj)
        if not inj.fired:
            raise Violation("non-deterministic solve: event %d of the fault-free run was not reached" % k)
        if k2 is not None and not inj.fired2:
            continue            # no retry took place: same run as the single failure
        where = "%s: ArithmeticError injected into KKT %s call #%d (iteration %s)%s" % (
            solver, ekind, k, "start-up" if it_e < 0 else it_e, " and into the retry that follows it" if k2 is not None else "")
        lab = "%s:%s:%s%s" % (solver, ekind, "startup" if it_e < 0 else ("it0" if it_e == 0 else "it>=1"), ":retry_fails_too" if k2 is not None else "")
        if kind == "raised":
            e = res
            if isinstance(e, ValueError) and "Rank" in str(e):
                if it_e > 0:
                    raise Violation("%s -> ValueError(%s) although the failure happened after the first iteration "
                                    "(documented: status 'unknown')" % (where, e))
                out = "ValueError(rank)"
            else:
                raise Violation("%s -> %s escaped from the solver: %s" % (where, type(e).__name__, e))
        else:
            sol = res
            st_ = sol["status"]
            out = st_
            if st_ == "unknown":
                msgs = check_unknown(case, mat, sol, it_e, where)
                if msgs:
                    raise Violation("%s -> 'unknown' but %s" % (where, "; ".join(msgs[:3])))
            elif st_ == "optimal":
                # only legitimate when the solver retried successfully (cpl's restore-and-retry) or had converged
                if solver in ("conelp", "coneqp"):
                    raise Violation("%s -> status 'optimal' reported although the KKT %s failed" % (where, ekind))
            else:
                raise Violation("%s -> status %r" % (where, st_))
        if stats is not None:
            stats.evaluations += 1
            stats.event(lab + "->" + out)
        if it_e >= 1:
            nontriv += 1
    if stats is not None:
        stats.evaluated(case, nontriv > 0, labels + ["events:%d" % min(len(events) // 10 * 10, 90)])
        stats.evaluations -= 1      # the instance itself is not an injected run
        stats.extra["instances"] = stats.extra.get("instances", 0) + 1
        stats.extra["injections_at_iteration_ge1"] = stats.extra.get("injections_at_iteration_ge1", 0) + nontriv
        stats.extra["exhaustive"] = True


# ------------------------------------------------------------------ domain-restricted F

@st.composite
def domain_case(draw):
    n = draw(st.integers(1, 3))
    return dict(n=n, a=[draw(gc.dy(-4, 4)) for _ in range(n)],
                center=[draw(gc.dy(-2, 2)) for _ in range(n)],
                radius=draw(st.sampled_from([0.75, 1.0, 1.5, 3.0])),
                halfspace=[draw(gc.dy(-2, 2)) for _ in range(n)], hoff=draw(st.sampled_from([0.5, 1.0, 2.0])),
                form=draw(st.sampled_from(["None", "tuple"])), entry=draw(st.sampled_from(["cp", "cp", "cpl"])),
                scale=draw(st.sampled_from([1.0, 4.0, 16.0])), box=draw(st.sampled_from([2.0, 5.0])))


def domain_oracle(case, stats=None):
    n = case["n"]
    ctr = np.array(case["center"])
    rad = case["radius"]
    hs = np.array(case["halfspace"])
    hoff = case["hoff"]
    a = ctr + np.clip(np.array(case["a"]) - ctr, -0.8 * rad, 0.8 * rad)      # unconstrained minimiser, inside the domain
    if float(hs @ (a - ctr)) >= 0.5 * hoff:
        hs = -hs
    sc = case["scale"]

    def indom(xv):
        return bool(np.max(np.abs(xv - ctr)) < rad and float(hs @ (xv - ctr)) < hoff)
    log = dict(refused=0, bad_H_calls=0, seen=[])

    def refuse():
        log["refused"] += 1
        return None if case["form"] == "None" else (None, None)

    def fobj(x, z):
        xv = np.array(list(x))
        if not indom(xv):
            if z is not None:
                log["bad_H_calls"] += 1
            return refuse()
        log["seen"].append(xv)
        # f(x) = sum_i sqrt(1 + sc^2 (x_i - a_i)^2): smooth, strictly convex, minimiser a; Newton steps taken
        # from |sc (x_i - a_i)| > 1 overshoot (t -> -t^3), so trial points do leave the restricted domain
        d = sc * (xv - a)
        w = np.sqrt(1.0 + d * d)
        f = float(np.sum(w))
        Df = matrix((sc * d / w).tolist(), (1, n))
        if z is None:
            return f, Df
        return f, Df, z[0] * matrix(np.diag(sc * sc / w ** 3).ravel().tolist(), (n, n))
    G = gc.cvx_dense(np.vstack([np.eye(n), -np.eye(n)]))
    box = rad + case["box"]          # the linear constraints are never active: the minimiser is `a`
    h = gc.cvx_dense(np.concatenate([ctr + box, -(ctr - box)]))
    try:
        if case["entry"] == "cp":
            def F(x=None, z=None):
                if x is None:
                    return 0, gc.cvx_dense(ctr)
                return fobj(x, z)
            sol = solvers.cp(F, G, h, options=OPTS)
        else:
            # cpl: minimize t subject to f(x) - t <= 0 over (x, t); same restricted domain in x
            def F(x=None, z=None):
                if x is None:
                    return 1, gc.cvx_dense(np.concatenate([ctr, [sc * 10.0 + 10.0]]))
                r = fobj(x[:n], z)
                if r is None or r[0] is None:
                    return r
                f = matrix([r[0] - x[n]])
                Df = matrix(list(r[1]) + [-1.0], (1, n + 1))
                if z is None:
                    return f, Df
                H = matrix(0.0, (n + 1, n + 1))
                H[:n, :n] = r[2]
                return f, Df, H
            c = matrix([0.0] * n + [1.0])
            G2 = gc.cvx_dense(np.hstack([np.vstack([np.eye(n), -np.eye(n)]), np.zeros((2 * n, 1))]))
            sol = solvers.cpl(c, F, G2, h, options=OPTS)
    except Exception as e:
        raise Violation("%s with a domain-restricted F (refusal form %s) raised %s: %s after %d refusals" % (
            case["entry"], case["form"], type(e).__name__, e, log["refused"]))
    if log["bad_H_calls"]:
        raise Violation("F(x, z) was called %d times at points outside the domain" % log["bad_H_calls"])
    st_ = sol["status"]
    if st_ not in ("optimal", "unknown"):
        raise Violation("status %r" % st_)
    xv = np.array(list(sol["x"]))[:n]
    if not indom(xv):
        raise Violation("returned x = %r is outside the domain of F (status %r)" % (xv.tolist(), st_))
    if st_ == "optimal" and np.linalg.norm(xv - a) > 1e-3 * (1 + np.linalg.norm(a)):
        raise Violation("'optimal' but x = %r is not the minimiser %r" % (xv.tolist(), a.tolist()))
    if stats is not None:
        stats.evaluated(case, log["refused"] > 0, ["domain", "entry:" + case["entry"], "form:" + case["form"],
                                                    "status:" + st_, "refused" if log["refused"] else "never_refused"])


# ------------------------------------------------------------------ part "restore": failures around cpl's restore-and-retry

def restore_oracle(case, stats=None):
    """Steep exponential constraints (the family of C07's 'restore' part) make cpl take relaxed steps; a failed
    factorization during such a series sends it back to the saved iterate, where it factors again.  Every factorization k
    of the fault-free run is made to fail together with the one that follows it in that run (the retry): cpl must
    return 'unknown' whose accuracy fields describe the iterate it returns."""
    from checks import c07
    case = dict(case, form="cpl")
    pr = c07.restore_problem(case)
    F, cm, Gm, hm, dims, n = pr["F"], pr["cm"], pr["Gm"], pr["hm"], pr["dims"], pr["n"]

    # every other instance is run with a user-defined vector type for y (the documented ynewcopy/ydot/yaxpy/yscal
    # arguments, A given as a function): the solver may then touch y only through these functions
    custom_y = (case["n"] + case["m"] + case["lrows"] + int(case["K"])) % 2 == 1

    class YV(object):
        def __init__(self, m_):
            self.m = m_

    def fA(x, y, alpha=1.0, beta=0.0, trans="N"):
        # y := alpha*A*x + beta*y (trans = 'N', y of the user's type) resp. y := alpha*A'*x + beta*y ('T', x of the user's type)
        blas.scal(beta, y.m if trans == "N" else y)          # A has no rows
    ykw = dict(A=fA, b=YV(matrix(0.0, (0, 1))), ynewcopy=lambda y: YV(matrix(y.m)), ydot=lambda u, v: blas.dot(u.m, v.m),
               yaxpy=lambda u, v, alpha=1.0: blas.axpy(u.m, v.m, alpha=alpha), yscal=lambda alpha, y: blas.scal(alpha, y.m)) if custom_y else {}

    def run(fail):
        cnt = [0]
        factor = misc.kkt_ldl(Gm, dims, matrix(0.0, (0, n)), 1)

        def kktsolver(x, z, W):
            f, Df, H = F(x, z)
            k = cnt[0]
            cnt[0] += 1
            if k in fail:
                raise ArithmeticError("injected failure in factorization %d" % k)
            f3 = factor(W, H, Df)
            if custom_y:
                return lambda bx, by, bz: f3(bx, by.m, bz)
            return f3
        try:
            return solvers.cpl(cm, F, Gm, hm, dims, kktsolver=kktsolver, options={"show_progress": False}, **ykw), cnt[0]
        except Exception as e:        # noqa: judged below
            return e, cnt[0]
    base, nfac = run(())
    if isinstance(base, Exception):
        if stats is not None:
            stats.evaluated(case, False, ["restore:fault_free_run_raised"])
        return
    doubles = 0
    for k in range(1, min(nfac, 30)):
        if custom_y:
            # with a user-defined y every single failure is judged here as well (the 'faults' part uses matrices)
            sol1, _ = run((k,))
            if isinstance(sol1, Exception):
                raise Violation("cpl with a user-defined vector type for y: ArithmeticError injected into factorization #%d -> %s escaped "
                                "from the solver: %s" % (k, type(sol1).__name__, sol1))
        sol, reached = run((k, k + 1))
        if reached <= k + 1:
            continue                     # no retry: the single failure is judged by the 'faults' part
        where = "cpl: ArithmeticError injected into factorization #%d and into the retry that follows the restore" % k
        if isinstance(sol, Exception):
            raise Violation("%s -> %s escaped from the solver: %s" % (where, type(sol).__name__, sol))
        if sol["status"] != "unknown":
            continue                     # the solver went on (a further restore) and finished: judged by C04
        doubles += 1
        x = rc.vec(sol["x"])
        sl, zl = rc.vec(sol["sl"]), rc.vec(sol["zl"])
        snl, znl = rc.vec(sol["snl"]), rc.vec(sol["znl"])
        msgs = []
        if not (rc.min_slack(sl, dims) > 0 and rc.min_slack(zl, dims) > 0 and snl.min() > 0 and znl.min() > 0):
            msgs.append("returned s, z not strictly inside the cone")
        fx = np.array([float(np.sum(np.exp(pr["K"] * (pr["Aa"] @ x))) - pr["rhs"])])
        pc = float(pr["c"] @ x)
        Gs, hs = rc.symcols(pr["G"], dims), rc.symvec(pr["h"], dims)
        dc = pc + float(znl @ fx) + rc.sdot(zl, Gs @ x - hs, dims)
        gap = float(snl @ znl) + rc.sdot(sl, zl, dims)
        sc = 1.0 + judge.nrm(pr["c"]) * judge.nrm(x)
        # f(x) = sum exp(K a_i'x) - rhs is a difference of (possibly huge) numbers: its rounding error is relative to them
        fmag = float(np.sum(np.exp(pr["K"] * (pr["Aa"] @ x)))) + abs(pr["rhs"])
        sc2 = sc + judge.nrm(znl) * (fmag + 1.0) + judge.nrm(zl) * (judge.nrm(Gs @ x) + judge.nrm(hs))
        for name, val, s_ in (("primal objective", pc, sc), ("dual objective", dc, sc2),
                              ("gap", gap, judge.nrm(sl) * judge.nrm(zl) + judge.nrm(snl) * judge.nrm(znl))):
            rep = sol.get(name)
            if not judge.isnum(rep) or not judge.close(rep, val, s_):
                msgs.append("field %r = %r but the returned vectors give %r" % (name, rep, val))
        # 'primal infeasibility' / 'dual infeasibility': the residual norms of the returned point divided by
        # max(1, their values at the starting point (x0, s = z = e)), as documented for cpl
        from cvxopt import exp as _cexp          # noqa
        e_c = np.concatenate([np.ones(dims["l"])] + [np.concatenate([[1.0], np.zeros(m_ - 1)]) for m_ in dims["q"]] +
                             [np.eye(m_).reshape(-1) for m_ in dims["s"]]) if rc.cdim(dims) else np.zeros(0)
        K_, Aa_ = pr["K"], pr["Aa"]

        def fDf(xx):
            ex = np.exp(K_ * (Aa_ @ xx))
            return np.array([float(np.sum(ex)) - pr["rhs"]]), (K_ * (Aa_.T @ ex)).reshape((1, -1))
        xstart = np.array(list(F()[1]), dtype=float)
        f0_, Df0_ = fDf(xstart)
        pres0 = max(1.0, float(np.sqrt(judge.nrm(f0_ + 1.0) ** 2 + rc.snrm2(Gs @ xstart + e_c - hs, dims) ** 2)))
        dres0 = max(1.0, judge.nrm(pr["c"] + Df0_.T @ np.ones(1) + Gs.T @ e_c))
        fx_, Dfx_ = fDf(x)
        pres_r = float(np.sqrt(judge.nrm(fx_ + snl) ** 2 + rc.snrm2(Gs @ x + rc.symvec(sl, dims) - hs, dims) ** 2)) / pres0
        dres_r = judge.nrm(pr["c"] + Dfx_.T @ znl + Gs.T @ rc.symvec(zl, dims)) / dres0
        psc = (fmag + judge.nrm(snl) + judge.nrm(Gs @ x) + judge.nrm(hs) + judge.nrm(sl)) / pres0
        dsc = (judge.nrm(pr["c"]) + float(np.linalg.norm(Dfx_)) * judge.nrm(znl) + float(np.linalg.norm(Gs)) * judge.nrm(zl)) / dres0
        for name, val, s_ in (("primal infeasibility", pres_r, psc), ("dual infeasibility", dres_r, dsc)):
            rep = sol.get(name)
            if not judge.isnum(rep) or abs(rep - val) > 1e-6 * (abs(val) + 1e-9) + 1e-9 * s_:
                msgs.append("field %r = %r but the returned vectors give %r (normalisers %.3g, %.3g)" % (name, rep, val, pres0, dres0))
        if msgs:
            raise Violation("%s -> 'unknown' but %s" % (where, "; ".join(msgs[:3])))
    if stats is not None:
        stats.evaluated(case, doubles > 0, ["restore", "double_failures_judged:%d" % min(doubles, 5)])
        stats.extra["restore_double_failures"] = stats.extra.get("restore_double_failures", 0) + doubles


def search(ctx, stats):
    if ctx.part == "restore":
        from checks import c07
        v = run_given(c07.restore_case(), lambda c: restore_oracle(c, stats), ctx.seed, ctx.n(200, 5000), stats)
        return [v] if v else []
    for k in KNOWN:
        KNOWN[k] = ctx.known_active(k)
    if ctx.part == "domain":
        v = run_given(domain_case(), lambda c: domain_oracle(c, stats), ctx.seed, ctx.n(3000, 60000), stats)
    else:
        v = run_given(case_strategy(), lambda c: oracle(c, stats), ctx.seed, ctx.n(640, 12000), stats)
    return [v] if v else []


def replay(case, part):
    if part == "restore":
        try:
            restore_oracle(case)
        except Violation as v:
            return v.msg
        return None
    try:
        (domain_oracle if part == "domain" else oracle)(case)
    except Violation as v:
        return v.msg
    return None
