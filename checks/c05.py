"""C05 — well-posed problems are classified correctly (optimal / infeasible / unbounded)."""
import numpy as np
from hypothesis import strategies as st
from vlib.harness import Violation, run_given
from vlib import ref_cone as rc, gen_cone as gc, judge, runlp
from checks import c03

DEF = dict(kkt=None, solver=None, start="none", opts={})
KNOWN = {"chol2-limit-singular": False, "coneqp-gap-cycling": False}


def known_chol2(mat, qp, dims):
    """Known finding chol2-limit-singular (see vlib/known.py): judged against a reference optimum obtained
    with the 'ldl' KKT solver."""
    if not KNOWN["chol2-limit-singular"] or dims["q"] or dims["s"]:
        return False
    from vlib import known
    try:
        if qp:
            ref = c03.call_qp(dict(entry="coneqp", kkt="ldl", form="matrix", opts={}, init=None, spP=False, spG=False,
                                   spA=False, Pjunk=0.0, omitG=False), mat)
        else:
            ref = runlp.call(dict(DEF, entry="conelp", kkt="ldl", spG=False, spA=False), mat)
    except Exception:
        return False
    if ref["status"] != "optimal":
        return False
    return known.chol2_limit_singular(mat, qp, rc.vec(ref["x"]), rc.vec(ref["s"]), rc.vec(ref["z"]), None)


@st.composite
def case_strategy(draw):
    family = draw(st.sampled_from(["lp", "lp", "lp", "qp"]))
    kinds = draw(st.sampled_from(["l", "l", "lq", "ls", "lqs", "lqs", "q", "s"]))
    if family == "lp":
        kind = draw(st.sampled_from(["feas", "feas", "pinf", "dinf"]))
        prob = draw(gc.cone_case(kind=kind, kinds=kinds))
    else:
        kind = "feas"
        if draw(st.integers(0, 5)) == 0:
            # QP without inequality constraints (coneqp solves one KKT system directly)
            prob = draw(gc.cone_case(kind="feas", dims={"l": 0, "q": [], "s": []}, qp=True))
        else:
            prob = draw(gc.cone_case(kind="feas", kinds=kinds, qp=True))
    paths = draw(st.lists(st.tuples(st.sampled_from(["conelp", "wrapper"] + (["cp"] if family == "qp" else [])),
                                    st.booleans(), st.booleans()), min_size=2, max_size=2, unique=True))
    case = dict(family=family, prob=prob, paths=[list(p) for p in paths],
                Pjunk=draw(st.sampled_from([0.0, 0.0, 5.5, -100.0])), omitG=draw(st.booleans()))
    if family == "lp" and draw(st.integers(0, 2)) == 0:
        # valid (strictly interior) start points are part of the documented interface of conelp and its wrappers
        N = rc.cdim(prob["dims"])
        case["start"] = draw(st.sampled_from(["primal", "dual", "both"]))
        case["start_data"] = dict(su=[draw(gc.dy(-4, 4)) for _ in range(N)], zu=[draw(gc.dy(-4, 4)) for _ in range(N)],
                                  xs=draw(st.integers(-3, 3)), ys=draw(st.integers(-3, 3)),
                                  delta=draw(st.sampled_from([0.5, 1.0, 4.0])))
    return case


def wrapper_for(dims):
    if not dims["q"] and not dims["s"]:
        return "lp"
    if not dims["s"]:
        return "socp"
    if not dims["q"]:
        return "sdp"
    return "conelp"


def sol_interval(D, v, qp=False):
    """[lo, hi] guaranteed to contain the optimal value, from the solution's own residuals (weak duality)."""
    x, s, y, z = v["x"], v["s"], v["y"], v["z"]
    r = judge.recompute_qp(D, x, s, y, z) if qp else judge.recompute_lp(D, x, s, y, z)
    ss, zs = rc.symvec(s, D.dims), rc.symvec(z, D.dims)
    rz = D.G @ x + ss - D.h
    ry = D.A @ x - D.b
    if qp:
        rx = D.P @ x + D.G.T @ zs + D.A.T @ y + D.q
    else:
        rx = D.G.T @ zs + D.A.T @ y + D.c
    return r, rx, ry, rz


def oracle(case, stats=None):
    prob = case["prob"]
    fam = case["family"]
    qp = fam == "qp"
    mat = c03.qp_data(prob) if qp else gc.materialize(prob)
    dims = mat["dims"]
    kind = prob["kind"]
    labels = ["family:" + fam, "kind:" + kind]
    wellposed = (mat["qp_rank_ok"] if qp else mat["rank_ok"])
    if wellposed and not qp and mat["cond_GA"] > 1e3:
        wellposed = False
    if qp and wellposed:
        M = np.vstack([mat["P"], mat["Gs"], mat["A"]])
        sv = np.linalg.svd(M, compute_uv=False)
        if sv[0] / sv[mat["n"] - 1] > 1e3:
            wellposed = False
    if not wellposed:
        if stats is not None:
            stats.evaluated(case, False, labels + ["skipped:not_moderately_conditioned"])
        return
    c = mat["q"] if qp else mat["c"]
    D = judge.Data(c, mat["G"], mat["h"], mat["A"], mat["b"], dims, P=mat["P"] if qp else None, q=c if qp else None)
    results = []
    for (path, spG, spA) in case["paths"]:
        if qp and path == "cp":
            # the same QP through the nonlinear solver cp (objective as callback F), default KKT solver
            from cvxopt import matrix as _m, solvers as _s
            Pm, qm = gc.cvx_dense(mat["P"]), gc.cvx_dense(mat["q"])
            n_ = mat["n"]

            def Fq(x=None, z=None):
                if x is None:
                    return 0, _m(0.0, (n_, 1))
                g = Pm * x + qm
                f = 0.5 * (x.T * Pm * x)[0] + (qm.T * x)[0]
                if z is None:
                    return f, g.T
                return f, g.T, z[0] * Pm
            entry = "cp"
            try:
                sol = _s.cp(Fq, gc.cvx(mat["G"], spG), gc.cvx_dense(mat["h"]), dims, gc.cvx(mat["A"], spA),
                            gc.cvx_dense(mat["b"]), options={"show_progress": False})
            except Exception as e:
                raise Violation("cp raised %s: %s on a well-posed %s instance" % (type(e).__name__, e, kind))
            status = sol["status"]
            labels.append("status:%s:%s" % (kind, status))
            labels.append("entry:cp")
            if status not in ("optimal", "unknown"):
                raise Violation("cp reports %r on a strictly feasible convex problem" % status)
            xv = rc.vec(sol["x"])
            sl, zl = rc.vec(sol["sl"]), rc.vec(sol["zl"])
            v = dict(x=xv, s=sl, y=rc.vec(sol["y"]), z=zl)
            r, rx, ry, rz = sol_interval(D, v, True)
            if status == "unknown" and not (r["pres"] <= 1e-5 and r["dres"] <= 1e-5 and r["gap"] <= 1e-5 * max(1.0, abs(r["pcost"]))):
                if known_chol2(mat, True, dims):
                    if stats is not None:
                        stats.exclude("chol2-limit-singular")
                    return
                raise Violation("cp ended 'unknown' on a well-posed instance with pres %.2e dres %.2e gap %.2e" % (
                    r["pres"], r["dres"], r["gap"]))
            x0, s0, z0, y0 = mat["x0"], mat["s0"], mat["z0"], mat["y0"]
            e_sol = abs(r["gap"]) + 10.0 * (judge.nrm(rx) * (judge.nrm(xv) + judge.nrm(x0)) + (judge.nrm(zl) + judge.nrm(z0)) * judge.nrm(rz)
                                            + (judge.nrm(v["y"]) + judge.nrm(y0)) * judge.nrm(ry)) + 1e-9 * (
                r["pcost_scale"] + r["dcost_scale"] + 1.0) + 1e-6 * (1 + abs(r["pcost"]))
            results.append(("cp", r["dcost"] - e_sol, r["pcost"] + e_sol, r["pcost"]))
            continue
        if qp:
            cfg = dict(entry="qp" if (path == "wrapper" and not dims["q"] and not dims["s"]) else "coneqp",
                       kkt=None, form="matrix", opts={}, init=None, spP=spG, spG=spG, spA=spA,
                       Pjunk=case.get("Pjunk", 0.0), omitG=case.get("omitG", False))     # only the lower triangle of P is referenced
            entry = cfg["entry"]
            try:
                sol = c03.call_qp(cfg, mat)
            except Exception as e:
                raise Violation("%s raised %s: %s on a well-posed %s instance" % (entry, type(e).__name__, e, kind))
            v, _ = judge.unpack_solution(sol, dims, "coneqp")
        else:
            entry = wrapper_for(dims) if path == "wrapper" else "conelp"
            cfg = dict(DEF, entry=entry, spG=spG, spA=spA)
            if case.get("start"):
                cfg.update(start=case["start"], start_data=case["start_data"])
                labels.append("start:" + case["start"])
            try:
                sol = runlp.call(cfg, mat)
            except Exception as e:
                raise Violation("%s raised %s: %s on a well-posed %s instance" % (entry, type(e).__name__, e, kind))
            v, _ = judge.unpack_solution(sol, dims, entry)
        status = sol["status"]
        labels.append("status:%s:%s" % (kind, status))
        labels.append("entry:" + entry)
        if kind == "feas":
            if status not in ("optimal", "unknown"):
                raise Violation("%s reports %r on a strictly primal-dual feasible instance" % (entry, status))
            r, rx, ry, rz = sol_interval(D, v, qp)
            if status == "unknown":
                # escape clause of the property: the final iterate must already be at the 1e-5 level
                if not (r["pres"] <= 1e-5 and r["dres"] <= 1e-5 and r["gap"] <= 1e-5 * max(1.0, abs(r["pcost"]))):
                    if known_chol2(mat, qp, dims):
                        if stats is not None:
                            stats.exclude("chol2-limit-singular")
                        return
                    if qp and KNOWN.get("coneqp-gap-cycling"):
                        from vlib import known
                        if known.coneqp_gap_cycling(sol):
                            if stats is not None:
                                stats.exclude("coneqp-gap-cycling")
                            return
                    raise Violation("%s ended 'unknown' on a well-posed instance with pres %.2e dres %.2e gap %.2e "
                                    "(iterations %r)" % (entry, r["pres"], r["dres"], r["gap"], sol.get("iterations")))
                labels.append("unknown_but_accurate")
            # weak duality against the planted points
            x0, s0, z0, y0 = mat["x0"], mat["s0"], mat["z0"], mat["y0"]
            nx, ny, nz = judge.nrm(v["x"]), judge.nrm(v["y"]), judge.nrm(v["z"])
            # weak-duality slack from the solution's own residuals (factor 10: the optimal multipliers are
            # only known approximately; a wrong optimum is off by O(1), these terms are O(feastol))
            e_sol = abs(r["gap"]) + 10.0 * (judge.nrm(rx) * (nx + judge.nrm(x0)) + (nz + judge.nrm(z0)) * judge.nrm(rz)
                                            + (ny + judge.nrm(y0)) * judge.nrm(ry)) + 1e-9 * (
                r["pcost_scale"] + r["dcost_scale"] + 1.0)
            if qp:
                p0 = 0.5 * float(x0 @ (D.P @ x0)) + float(D.q @ x0)
                # Lagrangian lower bound at the planted multipliers: g(z0,y0) = inf_x L, attained at x0 by construction
                d0 = p0 - float(z0 @ s0)
            else:
                p0 = float(D.c @ x0)
                d0 = -float(D.h @ rc.symvec(z0, dims)) - float(D.b @ y0)
            lo = r["dcost"] - e_sol
            hi = r["pcost"] + e_sol
            if lo > p0 + 1e-9 * (1 + abs(p0)):
                raise Violation("%s: dual objective %.9g exceeds the planted feasible value %.9g (bound slack %.2e)" % (
                    entry, r["dcost"], p0, e_sol))
            if hi < d0 - 1e-9 * (1 + abs(d0)):
                raise Violation("%s: primal objective %.9g below the planted dual bound %.9g (bound slack %.2e)" % (
                    entry, r["pcost"], d0, e_sol))
            # the objective the solver reports is the objective of the point it returns
            for fld, val, sc in (("primal objective", r["pcost"], r["pcost_scale"]), ("dual objective", r["dcost"], r["dcost_scale"] + r.get("gap_scale", 0.0))):
                rep = sol.get(fld)
                if status == "optimal" and judge.isnum(rep) and not (lo - 1e-6 * (1 + abs(val)) <= rep <= hi + 1e-6 * (1 + abs(val))):
                    raise Violation("%s: reported %r = %.9g lies outside the weak-duality bracket [%.9g, %.9g] of the returned point" % (
                        entry, fld, rep, lo, hi))
            results.append((entry, lo, hi, r["pcost"]))
        elif kind == "pinf":
            if status != "primal infeasible":
                raise Violation("%s reports %r on an instance with a strict primal-infeasibility certificate "
                                "(dual feasible by construction)" % (entry, status))
        elif kind == "dinf":
            if status != "dual infeasible":
                raise Violation("%s reports %r on an instance with a strictly improving ray "
                                "(primal feasible by construction)" % (entry, status))
    if len(results) == 2:
        (e1, lo1, hi1, p1), (e2, lo2, hi2, p2) = results
        if lo1 > hi2 + 1e-9 * (1 + abs(hi2)) or lo2 > hi1 + 1e-9 * (1 + abs(hi1)):
            raise Violation("objective brackets of two solver paths are disjoint: %s [%.9g, %.9g] vs %s [%.9g, %.9g]" % (
                e1, lo1, hi1, e2, lo2, hi2))
    # HiGHS differential for LPs
    if kind == "feas" and not qp and not dims["q"] and not dims["s"] and results:
        from scipy.optimize import linprog
        res = linprog(D.c, A_ub=D.G if D.N else None, b_ub=D.h if D.N else None,
                      A_eq=D.A if D.p else None, b_eq=D.b if D.p else None, bounds=(None, None), method="highs")
        if res.status == 0:
            labels.append("highs_compared")
            for (e, lo, hi, pc) in results:
                tol = 1e-6 * (1 + abs(res.fun))
                if res.fun < lo - tol or res.fun > hi + tol:
                    raise Violation("%s bracket [%.9g, %.9g] does not contain the HiGHS optimum %.9g" % (e, lo, hi, res.fun))
        else:
            raise Violation("HiGHS reports status %d (%s) on an instance planted strictly feasible: generator/oracle "
                            "inconsistency" % (res.status, res.message))
    nontrivial = (sum(1 for k in ("l",) if dims[k]) + (1 if dims["q"] else 0) + (1 if dims["s"] else 0) >= 2) \
        or mat["p"] > 0 or (qp and mat["rankP"] < mat["n"])
    if stats is not None:
        stats.evaluated(case, nontrivial, labels)


def search(ctx, stats):
    for k in KNOWN:
        KNOWN[k] = ctx.known_active(k)
    n = ctx.n(10000, 200000)
    v = run_given(case_strategy(), lambda c: oracle(c, stats), ctx.seed, n, stats, on_timeout="violation")
    return [v] if v else []


def replay(case, part):
    try:
        oracle(case)
    except Violation as v:
        return v.msg
    return None
