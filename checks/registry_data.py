from checks.registry import reg

reg("C13", "c13", [("histories", "plain", 1)], "exploration",
    rule="Hypothesis draws a pool (2-4 variables, per-variable box constraints, 2-6 affine/PWL/equality/"
         "variable-free constraints, 2-4 objectives) and a history of <=14 steps "
         "(add, del, del_present, objective reassignment, solve dense/sparse, mutate returned lists, bad argument); "
         "the history runs on a real op and on a list model, bookkeeping compared after every step, solves compared "
         "with a freshly built op. Non-trivial = history with a delete of a present multi-variable constraint "
         "followed by a solve, or an objective reassignment followed by a delete of a present constraint; "
         "distinct = distinct SHA-1 of the canonical case JSON.",
    assumptions=["the LP solver itself is judged by C01/C02/C05/C12; here only edited-vs-fresh agreement",
                 "solves returning 'unknown' on either side are not compared (counted in histogram)"],
    technique="model-based property testing of edit histories (Hypothesis) against a list model + fresh-op differential",
    level_text="Generated edit histories over generated pools, invariant checked after every step against a plain "
               "list model and a freshly constructed op; finds and shrinks bookkeeping defects to 2-3 step histories. "
               "Exploration, not exhaustive: histories up to 14 steps over pools of <=4 variables.",
    level_note="Trusts the list model (20 lines) and, for solve steps, that a freshly constructed op is correct.",
    design_ref="4/C13")
