from checks.registry import reg

reg("C13", "c13", [("histories", "plain", 15), ("fuzz", "plain", 1)], "exploration",
    rule="Hypothesis draws a pool (2-4 variables, per-variable box constraints, 2-6 affine/PWL/equality/"
         "variable-free constraints, 2-4 objectives) and a history of <=14 steps "
         "(add, del, del_present, objective reassignment, solve dense/sparse, mutate returned lists, bad argument); "
         "the history runs on a real op and on a list model, bookkeeping compared after every step, solves compared "
         "with a freshly built op. Non-trivial = history with a delete of a present multi-variable constraint "
         "followed by a solve, or an objective reassignment followed by a delete of a present constraint; "
         "distinct = distinct SHA-1 of the canonical case JSON.",
    assumptions=["the LP solver itself is judged by C01/C02/C05/C12; here only edited-vs-fresh agreement",
                 "solves returning 'unknown' on either side are not compared (counted in histogram)"],
    technique="model-based property testing of edit histories (Hypothesis) against a list model + pristine-twin fresh-op differential; the same histories also driven by coverage-guided fuzzing (atheris/libFuzzer on modeling.py)",
    level_text="Generated edit histories over generated pools, invariant checked after every step against a plain "
               "list model and a freshly constructed op; finds and shrinks bookkeeping defects to 2-3 step histories. "
               "Exploration, not exhaustive: histories up to 14 steps over pools of <=4 variables.",
    level_note="Trusts the list model (20 lines) and, for solve steps, that a freshly constructed op is correct.",
    design_ref="4/C13")

CONE_GEN = ("Hypothesis draws a cone structure dims={l<=4, q: <=2 cones of size 1-4, s: <=2 cones of order 0-3} "
            "(thorough: larger), n<=5, p<=2, small dyadic G/A and planted points; data are materialised as "
            "planted strictly feasible / planted primal-infeasible (Farkas certificate) / planted unbounded / "
            "unplanted random problems, with junk written into the unreferenced upper triangles of 's' blocks; ")

reg("C01", "c01", [("certificates", "plain", 1)], "exploration",
    rule=CONE_GEN + "configuration = entry point (conelp/lp/socp/sdp) x kktsolver (default, ldl, ldl2, qr, chol, chol2, "
         "numpy callable, callable wrapping kkt_ldl) x dense/sparse G,A x start points x tolerance/refinement/maxiters "
         "options x back-end (glpk, dsdp). Every result with status 'optimal' is re-judged in numpy from the caller's "
         "data; wrappers are also compared block-for-block with conelp on the documented assembly. "
         "Non-trivial = status 'optimal' after >=1 iteration with a q/s block of size >=2, or a non-default "
         "kktsolver, a start point, sparse G or an external back-end; distinct = SHA-1 of the case JSON.",
    assumptions=["rank-deficient data ([G;A] or A, verified by SVD in the generator) are outside the documented "
                 "domain and skipped (counted as skipped:rank_deficient)",
                 "GLPK/DSDP results are judged at the back-end's own tolerance (1e-6 / 1e-4), native results at the "
                 "requested feastol/abstol/reltol; field consistency at 1e-9 relative to the natural norm product",
                 "exceptions raised by a solve are judged by C05/C10, here only counted",
                 "dsdp.c/glpk.c cannot be rebuilt (headers absent): the prebuilt wheel binaries are used"],
    technique="property-based testing (Hypothesis) with an independent numpy certificate oracle; wrapper-vs-conelp differential",
    level_text="Each generated solve that claims 'optimal' is checked as a certificate against the caller's own data "
               "(residual norms, cone membership by eigenvalues, gap criterion, every accuracy field) and wrappers "
               "against conelp; ~6e3 (quick) / 1.5e5 (thorough) solves over all entry points, KKT solvers and back-ends. "
               "Exploration: sizes are small (n<=5, cones <=4).",
    level_note="Trusts numpy linear algebra and vlib/ref_cone.py (cone algebra written from coneprog.rst).",
    design_ref="4/C01")

reg("C02", "c02", [("solvers", "plain", 3), ("op", "plain", 1)], "exploration",
    rule=CONE_GEN + "classes weighted 40% planted primal-infeasible, 40% planted unbounded, 20% random; same "
         "configuration space as C01 (entry points, KKT solvers, storage, start points, options, glpk/dsdp), plus "
         "op.solve on modeling problems assembled from split variables / split constraint blocks (dense and sparse "
         "format and coefficients, default and glpk). Every 'primal infeasible' / 'dual infeasible' answer is "
         "re-judged in numpy. Non-trivial = an infeasibility status with a q/s block of size >=2 or equality "
         "constraints (op part: >=2 constraints or variables); distinct = SHA-1 of case JSON.",
    assumptions=["rank-deficient data are outside the documented domain (skipped, counted)",
                 "GLPK documents that it returns no certificates: only 'all fields None' is checked there",
                 "exceptions are judged by C05/C10"],
    technique="property-based testing (Hypothesis) with an independent numpy Farkas-certificate oracle",
    level_text="Every infeasibility verdict produced on ~2e4 (quick) / 4e5 (thorough) generated problems is checked "
               "as a Farkas certificate against the caller's data (normalisation, cone membership, residual, reported "
               "fields), through conelp/lp/socp/sdp and op.solve.",
    level_note="Trusts numpy and vlib/ref_cone.py.",
    design_ref="4/C02")

reg("C03", "c03", [("qp", "plain", 1)], "exploration",
    rule=CONE_GEN + "here as planted solvable QPs: P = BB' of any rank 0..n (junk in the strictly upper triangle), "
         "q = -(P x0 + G'z0 + A'y0); cone structure incl. the problem without inequalities (G omitted or 0 rows); "
         "configuration = coneqp/qp x kktsolver (default, ldl, ldl2, chol, chol2, numpy callable, wrapped kkt_ldl) x "
         "dense/sparse P,G,A x P/G/A as Python operators x initvals subsets x options. Every 'optimal' result is "
         "re-judged in numpy. Non-trivial = optimal after >=1 iteration with rank(P)<n or a q/s block >=2, or the "
         "no-inequality branch with p>=1; distinct = SHA-1 of case JSON.",
    assumptions=["rank([P;G;A])=n and rank(A)=p verified by SVD in the generator; others skipped and counted",
                 "exceptions are judged by C05/C10"],
    technique="property-based testing (Hypothesis) with an independent numpy QP-KKT oracle",
    level_text="Each generated coneqp/qp solve that claims 'optimal' is checked against the caller's P,q,G,h,A,b "
               "(stationarity with the lower triangle of P only, primal residual, cone membership, the three "
               "documented gap criteria, every accuracy field); ~2e4 quick / 4e5 thorough solves.",
    level_note="Trusts numpy and vlib/ref_cone.py.",
    design_ref="4/C03")

reg("C05", "c05", [("classify", "plain", 1)], "exploration",
    rule=CONE_GEN + "[QPs: one in six without inequality constraints; P is passed with junk in its strict upper triangle; the reported primal/dual objective must lie in the weak-duality bracket of the returned point.] [one feasible instance in five with equality constraints is homogeneous: h = 0 and b != 0 (standard-form LPs and their cone analogues), scaled by 1, 4 or 16.] only planted classes (strictly primal-dual feasible LPs and QPs with rank-deficient P allowed; "
         "strict Farkas certificate with a dual feasible point; strictly improving ray with a primal feasible point), "
         "kept only when cond([G;A]) resp. cond([P;G;A]) <= 1e3 and rank(A)=p (SVD); each instance is solved through two "
         "presentations (conelp vs lp/socp/sdp wrapper, coneqp vs qp, dense/sparse) with the default KKT solver and "
         "default options. Non-trivial = instance with >=2 cone types, equality constraints or rank-deficient P; "
         "distinct = SHA-1 of case JSON.",
    assumptions=["'unknown' is accepted on a feasible instance only if the recomputed residuals and gap are <= 1e-5 "
                 "(the property's escape clause)",
                 "objective agreement is judged with the weak-duality bracket [dual obj - e, primal obj + e], "
                 "e = gap + 10*(residual norms x iterate/planted norms); HiGHS (scipy) is the LP reference",
                 "cpl/cp are exercised by C04; here conelp, coneqp and their wrappers"],
    technique="property-based testing (Hypothesis) on planted instances; oracle = planted truth + weak duality + HiGHS differential",
    level_text="On ~1e4 (quick) / 2e5 (thorough) planted, moderately conditioned instances every native solve must "
               "classify correctly (optimal / primal infeasible / dual infeasible), raise nothing, and give an "
               "objective consistent with the planted primal/dual points, the other solver path and HiGHS.",
    level_note="Trusts the planted constructions (verified per case by SVD and, for LPs, by HiGHS), numpy, scipy HiGHS.",
    design_ref="4/C05")

reg("C08", "c08", [("kernels", "plain", 1)], "exploration",
    rule="Hypothesis draws a kernel (scale, scale2, pack, pack2, unpack, sdot, snrm2, sgemv, trisc, triusc, symm, sprod, "
         "ssqr, sinv, max_step, jdot, jnrm2), dims incl. empty and order-0/1 blocks, mnl 0-2, dyadic vectors (made interior "
         "where the operation needs it), W from the definition (d, beta, v with v'Jv=1, nonsingular r with rti=r^-T), "
         "flags trans/inverse/diag, offsets, multi-column arguments; sentinels surround the addressed region. Each case "
         "runs on the compiled kernels and on the pure-Python fallbacks (misc.py re-loaded with use_C=False). "
         "Non-trivial = a q or s block of size >=2 together with a non-default flag/offset/mnl/multi-column "
         "(symm/jdot/jnrm2: n>=2); distinct = SHA-1 of case JSON.",
    assumptions=["strictly upper triangles of 's' blocks are unspecified storage: results are compared on lower triangles",
                 "kernels are called within their contract (vector lengths consistent with dims/mnl/offsets)"],
    technique="property-based differential testing: numpy definition vs compiled vs pure-Python kernels, algebraic laws, sentinels",
    level_text="~6e4 (quick) / 1.5e6 (thorough) generated kernel calls, each judged against a numpy reference written from "
               "the definition, by algebraic laws (inverse scaling, adjointness, pack isometry, sinv o sprod, "
               "eigen-decomposition of max_step) and by C-vs-Python agreement, with sentinel words around the addressed blocks.",
    level_note="Trusts numpy and vlib/ref_cone.py; the Python fallbacks are obtained by an AST transform of the tree's misc.py.",
    design_ref="4/C08")

reg("C07", "c07", [("direct", "plain", 4), ("scaling", "plain", 3), ("insolve", "plain", 3), ("restore", "plain", 4), ("patterns", "plain", 2)], "exploration",
    rule="[patterns part: pure 'l' cone, 6-10 variables, sparse G with 2-3 entries per row plus -I, dense or sparse A, H absent or sparse diagonal, 1-3 scalings: kkt_ldl/chol2/chol/ldl2 against the dense reference and each other.] [restore part: cpl/cp problems with steep exponential constraints and a 'q' block; an ArithmeticError is injected into every kktsolver call in turn; when the retry starts from an iterate (x, z) the KKT solver has seen before it must receive the same scaling W. direct part: the strict upper triangle of H holds junk.] direct: Hypothesis draws (G, A, optional H=BB', Df for mnl 0-3) satisfying the rank assumptions (SVD), dense or "
         "sparse, and a history of 1-4 factor calls (each with its own W built from the definition, H, Df) with 1-2 "
         "right-hand sides each; every built-in solver applicable (ldl, ldl2, chol, chol2 for pure-'l', qr without H/mnl) "
         "runs the history on one factory; each solve is judged by the backward error of the documented block system "
         "(dense numpy K), pairwise agreement and agreement with a fresh factory. scaling: compute_scaling on interior "
         "(s,z) then 0-3 update_scaling calls on new interior iterates expressed in the current scaling. insolve: real "
         "conelp/coneqp solves with compute_scaling/update_scaling wrapped and a checking kktsolver. "
         "Non-trivial = q/s block of size >=2 with >=2 factor calls or mnl>0 (direct), >=1 update (scaling), >=2 "
         "scalings observed (insolve); distinct = SHA-1 of case JSON.",
    assumptions=["W conditioning bounded in the generator (cond(r) <= 1e2); in-solve KKT residuals only judged while "
                 "cond(W) <= 1e4 (the contract is 'to working accuracy')",
                 "a solve routine is only used until the next factor call on the same factory (as every caller does)",
                 "results compared on ux, uy and the lower triangles of W*uz"],
    technique="model-based property testing of factor/solve histories against a dense numpy KKT model; differential among the five solvers; invariant checking of scalings",
    level_text="Generated factor/solve histories on every built-in KKT solver judged by backward error against a dense "
               "numpy model of [P A' G'; A 0 0; G 0 -W'W], pairwise and fresh-factory agreement; NT scalings judged by "
               "their documented invariants and W z = W^-T s = lambda after creation and every update, both in "
               "isolation and on the stream of W produced inside real solves.",
    level_note="Trusts numpy and vlib/ref_cone.py + vlib/ref_kkt.py (apply_W, packed KKT assembly).",
    design_ref="4/C07")

reg("C06", "c06", [("presentations", "plain", 3), ("names", "plain", 1), ("patterns", "plain", 1)], "exploration",
    rule=CONE_GEN + "[patterns part: pure-'l' LPs/QPs with 8-12 variables and a genuinely sparse G (3 entries per row plus bound rows), solved under all four dense/sparse storage mixes of G(P) and A with kktsolver None/'chol2'/'ldl' and compared with the all-dense 'ldl' presentation.] well-posed planted LPs (feasible / primal infeasible / unbounded) and QPs, cond <= 1e3; each is solved "
         "in the base presentation (conelp/coneqp, dense, default KKT solver) and under one generated transformation: "
         "sparse storage, another kktsolver name, the lp/socp/sdp/qp wrapper, operator form with a numpy KKT solver, "
         "valid start points, a scalar inequality re-encoded as a 1-dim 'q' or order-1 's' cone, row permutation in 'l', "
         "variable permutation, positive objective scaling, GLPK, DSDP. names part: every entry point (conelp, lp, socp, "
         "sdp, coneqp, qp, cpl, cp, gp) x kktsolver string in {ldl, ldl2, qr, chol, chol2, foo, '', LDL, cholmod} with "
         "counting wrappers around misc.kkt_* and the user F. Non-trivial = both presentations optimal (presentations), "
         "an unsupported name (names); distinct = SHA-1 of case JSON.",
    assumptions=["'unknown' whose recomputed residuals and gap are <= 1e-5 is treated as 'optimal' (escape clause of C05)",
                 "optimal values compared through weak-duality brackets; x compared only when P is positive definite "
                 "(strong-convexity bound)",
                 "DSDP only on strictly feasible instances (known finding of C01); back-end 'unknown' is inconclusive"],
    technique="metamorphic / differential property-based testing over pairs of presentations; call counting for early rejection",
    level_text="~8e3 (quick) / 1.6e5 (thorough) pairs of presentations of one generated well-posed problem must agree on "
               "status and optimal value (and on x when unique); every unsupported kktsolver name must be rejected with "
               "ValueError before any KKT factorization or F(x) evaluation.",
    level_note="Trusts the planted constructions, numpy, and the weak-duality bracket derivation (DESIGN 4/C05).",
    design_ref="4/C06")

reg("C10", "c10", [("faults", "plain", 9), ("domain", "plain", 3), ("restore", "plain", 4)], "fault_enumeration",
    rule="[for cpl/cp 'unknown' exits also the 'primal slack'/'dual slack' fields are recomputed from the returned snl, sl, znl, zl.] faults: Hypothesis draws an instance (conelp with/without start points, coneqp with/without initvals and the "
         "no-inequality branch, cpl with a quadratic constraint, cp with a quadratic objective; all cone structures, "
         "refinement 0/1/default); a fault-free instrumented run (kktsolver='ldl', misc.kkt_ldl wrapped) records every "
         "factor() and solve() call; then EVERY call index is injected with ArithmeticError in turn (exhaustive per "
         "instance) and the outcome is judged. evaluations = injected runs. domain: cp/cpl with F returning None or "
         "(None, None) outside a random convex set (box intersected with a half-space) that contains the start point "
         "and the minimiser. Non-trivial = instance with an injection at iteration >= 1 (faults), a solve in which F "
         "refused at least one trial point (domain); distinct = SHA-1 of case JSON.",
    assumptions=["at start-up and in iteration 0 both the documented rank ValueError and status 'unknown' are accepted; "
                 "from iteration 1 on only 'unknown' (cpl/cp may also recover through their restore-and-retry and "
                 "return 'optimal')",
                 "faults are injected as exceptions at call boundaries of the KKT solver (not as silent wrong results)"],
    technique="exhaustive fault injection over every KKT factor/solve call of generated instances (Hypothesis generates the instances); generated convex refusal patterns for domain-restricted F",
    level_text="For each of ~160 (quick) / 3000 (thorough) generated instances every factor and every solve call of the "
               "solve (typically 20-80 per instance) is made to fail once; the solver must answer with the documented "
               "rank ValueError (start-up / iteration 0) or status 'unknown' with strictly interior iterates and "
               "self-consistent fields, never another exception, never 'optimal'. Per-instance sweep is exhaustive.",
    level_note="Trusts the instrumentation (wrapper around misc.kkt_ldl) and vlib/judge.py for field recomputation.",
    design_ref="4/C10")

reg("C04", "c04", [("nonlinear", "plain", 1)], "exploration",
    rule="Hypothesis draws n<=3, a planted in-domain strictly feasible point x*, an objective (cp: convex quadratic of any "
         "rank, log-sum-exp, log barrier -sum log(b-Ax), sum w/(x-l), sum (x-l)log(x-l), sum sqrt(rho+(Ax-b)^2); cpl: "
         "linear c; gp: posynomial data K,F,g), 0-2 nonlinear constraints from the same families shifted so that "
         "f_k(x*) = -margin, linear cone constraints (box + generated l/q/s blocks) and 0-1 equalities through x*, "
         "dense or sparse Df/H/G, kktsolver in {default, ldl, ldl2, chol}, tolerance/refinement options; functions with "
         "restricted domain answer None outside it and every call of F is logged. Non-trivial = status 'optimal' with "
         ">=1 nonlinear constraint or >=1 refused trial point; distinct = SHA-1 of case JSON.",
    assumptions=["cp/gp return the reduced vectors of the internal epigraph problem: stationarity and primal residual are "
                 "judged through bounds derived from the epigraph KKT conditions (|1-z0| <= feastol*dres0)",
                 "exceptions are judged by C10"],
    technique="property-based testing (Hypothesis) with numpy re-evaluation of the user functions; cp-vs-coneqp and gp-vs-cp differentials; call-history invariant",
    level_text="Each 'optimal' result of cpl/cp/gp on ~6e3 (quick) / 1.2e5 (thorough) generated problems is re-judged: x in "
               "the domain, residuals with the documented x0-normalisers, cone membership, gap criteria and fields; cp on "
               "quadratic data must agree with coneqp, gp with cp; F(x,z) is never called where F(x) refused.",
    level_note="Trusts vlib/nlfam.py (function families with analytic gradients/Hessians) and numpy.",
    design_ref="4/C04")

reg("C09", "c09", [("histories", "plain", 15), ("refinement", "plain", 1)], "exploration",
    rule="[part refinement: planted cone LPs/QPs through conelp/coneqp/lp/qp with a counting user KKT solver (wrapping misc.kkt_ldl) and refinement = 0, 1, 2 and absent, per call or global: the number of solve calls after the first main-loop factorization must grow linearly with the option and the absent option must equal the documented default (0 without q/s cones, 1 otherwise).] [coneqp/qp calls without inequality constraints are generated as well.] [every verdict must meet the effective feastol/abstol/reltol in the solver's own accuracy fields; for cp/cpl the start point returned by F() must be left untouched.] Hypothesis draws a history of 2-8 steps over all ten entry points (conelp, coneqp, lp, qp, socp, sdp, cpl, cp, gp, "
         "op.solve), each call on its own generated problem: set/delete a key of the global solvers.options, call with or "
         "without a per-call options= dictionary (incl. the empty dictionary), call with an invalid option value (global or "
         "per-call), run 2-4 calls concurrently in threads (switch interval 1e-6), loose-vs-tight tolerance pair. Every "
         "call is compared bit-for-bit with the same call made by a pristine forked process (forked before any solver "
         "call; global options empty; the effective options passed explicitly), and byte images of all arguments, dims, "
         "start points, the per-call and the global options dictionary are compared before/after. Non-trivial = history "
         "with >=3 compared solver calls, >=1 global option edit and >=1 per-call dictionary; distinct = SHA-1 of case JSON.",
    assumptions=["OPENBLAS_NUM_THREADS=1 (set by the runner): results are then bit-reproducible across processes",
                 "thread interleavings are sampled (short switch interval), not enumerated",
                 "kktreg is only validated by the cone solvers (documented there)"],
    technique="model-based property testing of call histories (Hypothesis) with a pristine-process differential oracle and byte-image isolation checks",
    level_text="~1600 (quick) / 3e4 (thorough) generated histories; every solver call in a history must equal the call "
               "made from a pristine process with the effective options given explicitly (so per-call options win, nothing "
               "leaks between calls or threads), leave all inputs and option dictionaries byte-identical, reject invalid "
               "option values with ValueError before any KKT factorization or F(x) call, and respect maxiters.",
    level_note="Trusts the reference server (a process forked before the first solver call) and float.hex serialisation.",
    design_ref="4/C09")

reg("C11", "c11", [("expressions", "plain", 15), ("fuzz", "plain", 1)], "exploration",
    rule="Hypothesis draws 1-3 variables of lengths 1-4 and a typed expression tree (depth <= 4) of requested length and "
         "curvature from the documented operations: +, -, unary -, scalar*f, f*scalar, f/scalar, A*f (dense/sparse A), "
         "f*a (len(f)=1), indexing with int / negative int / slice / list / integer matrix, sum, dot, max, min, abs, "
         "single-argument max/min and the in-place forms; the same variable may occur several times with scalar, row and "
         "matrix coefficients. 10% of the trees are built to be invalid (length mismatch, convex+concave, max of concave, "
         "matrix*PWL, index out of range, length-changing in-place). Values are dyadic so the reference arithmetic is exact. "
         "Non-trivial = length >= 2 and (a variable occurring >= 2 times or a convex/concave result); distinct = SHA-1.",
    assumptions=["values compared exactly (dyadic data: no rounding in either implementation)",
                 "curvature acceptance is probed through the public constraint constructors f<=0, -f<=0, f==0"],
    technique="property-based testing (Hypothesis recursive typed generator) against a numpy reference evaluator; aliasing probes; the same generator also driven by coverage-guided fuzzing (atheris/libFuzzer on modeling.py)",
    level_text="~4e4 (quick) / 8e5 (thorough) generated expression trees: len(f), f.value() at three assignments, "
               "variables(), None-propagation, curvature acceptance/refusal and non-aliasing of +f and binary results are "
               "compared with a reference evaluator written from modeling.rst.",
    level_note="Trusts vlib/ref_model.py (reference evaluator, 150 lines) and numpy.",
    design_ref="4/C11")

reg("C12", "c12", [("problems", "plain", 1)], "exploration",
    rule="[one problem in four uses ONE function object g = M*x_k in two constraints (x_k + g <= ., g <= .).] [kind 'simplex': x >= 0 and one equality sum(x) = total with a non-zero constant, no box: matrix form with h = 0, b != 0.] Hypothesis draws 1-3 variables (lengths 1-3), a convex or affine objective tree of length 1 and 0-3 constraints "
         "(convex tree <= rhs, concave tree >= rhs, affine tree == rhs, a constraint without variables; vector or scalar "
         "right-hand sides) from the C11 expression grammar (nested max/min/abs, sum of max, indexing, matrix coefficients, "
         "dense/sparse), with right-hand sides shifted so that a drawn point x0 is strictly feasible; variants: boxed "
         "(optimum exists), contradictory pair added (infeasible), only upper bounds with objective sum(x) (unbounded); "
         "format dense/sparse, solver default/glpk. Non-trivial = optimal with >= 2 variables and a non-trivial objective "
         "tree, or an infeasible/unbounded instance; distinct = SHA-1 of case JSON.",
    assumptions=["the reference LP is formed by vlib/ref_lp.py (epigraph form written independently of modeling.py) and "
                 "solved by scipy HiGHS", "status 'unknown' from the solver is inconclusive (counted)",
                 "dual validity: the Lagrangian with the returned multipliers, minimised over a unit box around the "
                 "returned solution, must equal the optimal value within 1e-5 relative (robust form of stationarity + "
                 "complementary slackness)"],
    technique="property-based differential testing against an independently formed LP (HiGHS) + reference evaluation of the original constraints + Lagrangian dual check",
    level_text="~8e3 (quick) / 1.5e5 (thorough) generated PWL problems: status must match the independent LP, the returned "
               "values must satisfy every original constraint (reference evaluator), objective.value() must equal the "
               "independent optimum, multipliers must have the right length and sign and form a dual solution; "
               "infeasible/unbounded variants must report the documented status with values/multipliers None.",
    level_note="Trusts vlib/ref_model.py, vlib/ref_lp.py and scipy HiGHS.",
    design_ref="4/C12")

reg("C14", "c14", [("roundtrip", "plain", 8), ("reader", "plain", 7), ("fuzz", "plain", 1)], "exploration",
    rule="[reader part: RHS and RANGES lines may carry two (row, value) pairs.] roundtrip: Hypothesis draws an LP in the modeling layer (1-3 variables of lengths 1-3 with distinct short or empty "
         "names, 1-4 constraints <=, >=, == with scalar / row / matrix coefficients, dense or sparse, vector or scalar "
         "right-hand sides, affine objective with constant, values with <= 6 significant digits in [1e-3, 1e4]); tofile, "
         "fromfile on a fresh op, then rows and columns are matched by their MPS labels and compared as affine maps; both "
         "problems are solved. reader: Hypothesis draws a structured MPS model (N/L/G/E rows, COLUMNS with one or two "
         "entries per line, RHS, RANGES of both signs on every row type, LO/UP/FX/FR/MI/PL bounds, comment lines, extra "
         "N row, second RHS/RANGES/BOUNDS vectors), renders it in fixed format and compares the constraints built by "
         "fromfile with those the format defines (multiset). Non-trivial = LP with a vector variable, a matrix "
         "coefficient and an equality (roundtrip); file with RANGES and >= 2 bound kinds (reader).",
    assumptions=["labels are kept short enough that the writer's 8-character label mangling is injective (collisions "
                 "are skipped and counted)", "UP with a negative value and no lower bound is not generated (dialect dependent)",
                 "rows without coefficients are removed by fromfile as its code documents"],
    technique="property-based round-trip testing + differential against an independent MPS semantics model (Hypothesis); generated MPS files also driven by coverage-guided fuzzing (atheris/libFuzzer on modeling.py)",
    level_text="~6e3 (quick) round trips compared coefficient-by-coefficient through the MPS labels plus status/optimal value, "
               "and ~1.2e4 generated fixed-format files whose constraint multiset must equal the one the MPS format defines.",
    level_note="Trusts the MPS semantics model in checks/c14.py (expected()) and the fixed-column renderer.",
    design_ref="4/C14")

reg("C15", "c15", [("ops", "plain", 3), ("histories", "plain", 1)], "exploration",
    rule="[block lists may contain sparse blocks.] ops: Hypothesis draws one operation on dense matrices of typecodes i/d/z and shapes 0..3 x 0..3 (small integers, "
         "dyadic floats, Gaussian half-integers, so arithmetic is exact): construction from a number / sequence / matrix "
         "(with size and tc) / nested block-column lists, 1- and 2-argument indexing and indexed assignment with int, "
         "negative int, slice (all step signs, out-of-range bounds), list and integer-matrix keys (in and out of range) "
         "and scalar / 1x1 / sequence / matrix right-hand sides of right and wrong size or type, + - * / for all typecode "
         "pairs and matrix/number/1x1 pairings in both operand orders, ** and %, in-place operators, T/H/trans/ctrans/"
         "real/imag, size reassignment, len/bool/max/min/sum/list/iter/in, elementwise sqrt/exp/log/sin/cos/mul/div/max/min. "
         "histories: 2-12 steps over a heap of names with aliases (B = A), copies (+A, matrix(A), A[:], A.T.T), in-place "
         "updates, indexed assignment and regular operations through any name, all names compared after each step. "
         "Non-trivial = accepted operation on a non-empty matrix involving a list/matrix index, a binary/in-place "
         "operation or an assignment (ops); >= 2 updates through aliased names (histories).",
    assumptions=["the model (vlib/ref_dense.py) is written from matrices.rst; behaviours the manual leaves open are not "
                 "generated (sign of % for negative operands, imag() of an integer matrix)",
                 "exception classes: IndexError where the manual says index out of range; otherwise any of "
                 "TypeError/ValueError/ZeroDivisionError/ArithmeticError/NotImplementedError counts as 'refused'"],
    technique="property-based testing against a pure-Python column-major reference model; model-based aliasing histories",
    level_text="~2e5 (quick) / 5e6 (thorough) generated operations and ~3e4 / 6e5 aliasing histories compared exactly "
               "(typecode, size, every element, accepted-vs-refused, object identity) with a reference model.",
    level_note="Trusts vlib/ref_dense.py.",
    design_ref="4/C15")

reg("C16", "c16", [("ops", "plain", 5), ("histories", "plain", 2), ("ops_asan", "asan", 6), ("histories_asan", "asan", 3)], "exploration",
    rule="ops: Hypothesis draws one operation on spmatrix objects (real/complex, sizes 0..4 x 0..4, triplets with duplicates, "
         "explicit zeros, empty rows/columns): construction from triplets (lists, tuples, integer matrices; with and without "
         "size; out-of-range indices), sparse() (single and block form), spdiag(), 1- and 2-argument indexing and indexed "
         "assignment with int / slice / list / integer-matrix keys incl. negative entries, duplicates and out-of-range "
         "values and number / dense / sparse right-hand sides of right and wrong size, + - * for sparse/sparse and "
         "sparse/dense pairs in both orders, scalar operations, in-place operators, T/H/real/imag/abs, V assignment, size "
         "change, and base.axpy/gemv/gemm/syrk/symv on every sparse/dense operand combination incl. partial=True. Each "
         "is executed on the sparse operands and on their dense copies. histories: 3-10 mutating steps on one object "
         "(and its dense image). The extension modules are built with AddressSanitizer. Non-trivial = accepted operation "
         "on a non-empty pattern with a list/matrix index, a sparse right-hand side, a binary/in-place operation or a "
         "mixed product (ops); >= 3 successful mutations (histories).",
    assumptions=["cvxopt's dense matrices are the reference (pinned independently by C15)",
                 "for assignments with duplicate indices on the left-hand side and a matrix right-hand side only "
                 "structural validity is judged (the manual defines no order of writes)",
                 "products are compared to 1e-12 relative, everything else exactly (dyadic data)"],
    technique="property-based differential testing sparse-vs-dense (Hypothesis) with a CCS validity invariant, under AddressSanitizer",
    level_text="~6e4 (quick) / 2e6 (thorough) generated sparse operations and ~1.2e4 / 3e5 mutation histories; dense image, "
               "result type, exception class and CCS validity checked after every step; ASan reports and crashes of the "
               "interpreter are attributed to the journaled case.",
    level_note="Trusts cvxopt dense matrices (C15) as reference and the ASan runtime.",
    design_ref="4/C16")

reg("C17", "c17", [("calls", "plain", 1)], "exploration",
    rule="Hypothesis draws one call of one of the 34 cvxopt.blas routines: typecode d/z, every flag, logical dimensions 0..4 "
         "(band widths 0..3), increments in {1,2,3,-1,-2}, leading dimensions minimum..minimum+2, offsets 0..3, buffers "
         "with 0..3 elements of padding in matrix or vector shape, explicit, omitted, negative (dimensions) and zero (ld) "
         "forms of the optional arguments, alpha/beta real, integer and complex; one call in four carries one negative "
         "mutation (buffer one element short, ld below the minimum, negative offset, zero/negative increment, typecode "
         "conflict, illegal flag, complex scalar for real data, dimension too large). Non-trivial = accepted call with an "
         "operand of order >= 2 and a flag or a non-default increment/ld/offset or an omitted argument; or a call that "
         "must be refused.",
    assumptions=["vlib/spec_blas.py transcribes the docstrings of src/C/blas.c (defaults, ld/inc/offset rules, extents)",
                 "results compared to 1e-9 relative (data are multiples of 1/8 of magnitude <= 2, orders <= 4)",
                 "a call that violates a documented rule but addresses no data may be refused or carried out"],
    technique="property-based testing against a reference model (Hypothesis): numpy semantics on explicit index sets, "
              "junk outside the structural footprint, untouched-outside and accept/refuse classification",
    level_text="~4e5 (quick) / 1.2e7 (thorough) generated BLAS calls; every written element compared with a numpy reference "
               "computed from the structural footprint only, every other element of every argument required bit-identical, "
               "refusals required exactly for the calls the documented rules forbid.",
    level_note="Trusts vlib/spec_blas.py and numpy.",
    design_ref="4/C17")

reg("C18", "c18", [("calls", "plain", 1)], "exploration",
    rule="Hypothesis draws a LAPACK scenario: one of 14 families covering all 60 routines of cvxopt.lapack (general, band, "
         "tridiagonal, positive definite, positive definite band/tridiagonal, symmetric/Hermitian indefinite, triangular "
         "and triangular band systems with drivers, factor/solve/invert pairs; gels; QR/LQ with generation of and products "
         "with Q, pivoted QR; symmetric/Hermitian and generalized eigenproblems with all drivers and range options; SVD "
         "with every job option; Schur and generalized Schur forms with select callbacks; lacpy, larfg, larfx), typecode "
         "d/z, orders 0..5, 0..3 right-hand sides, uplo/trans/diag/job options, band widths 0..2, and for every matrix "
         "argument either its natural shape with all optional arguments omitted, or leading dimension minimum..+2, offset "
         "0..3 and padding inside a larger buffer filled with junk; one system in six is exactly singular / not positive "
         "definite. Non-trivial = order >= 2 with a complex, embedded or default-argument form.",
    assumptions=["matrices are built with prescribed singular values / eigenvalues in [0.5, 2] (well conditioned)",
                 "residuals are judged with 2e-10 relative to ||A|| ||X|| + ||B|| (observed level 1e-15)",
                 "eigenvalues of non-normal matrices are compared through power sums (well conditioned)"],
    technique="property-based testing against defining equations (Hypothesis): residuals, reconstruction, orthonormality, "
              "driver-vs-factor/solve agreement, untouched-outside-block, ArithmeticError for exactly singular input",
    level_text="~2.5e5 (quick) / 6e6 (thorough) generated LAPACK scenarios over all 60 wrappers; each checks the documented "
               "defining equations with numpy, that A is unmodified when no factor output is requested, and that nothing "
               "outside the addressed blocks changes.",
    level_note="Trusts numpy.linalg for reference eigenvalues / singular values / pseudo-inverses.",
    design_ref="4/C18")

reg("C19", "c19", [("blas_box", "plain", 4), ("lapack_box", "plain", 4), ("base_asan", "asan", 3), ("index_asan", "asan", 3), ("misc_asan", "asan", 2)],
    "exploration",
    rule="blas_box: around a generated valid call of one of the 34 BLAS wrappers (the C17 generator) the Cartesian box "
         "{-2..2}x{-2..2} of two integer arguments (dimensions, increments, leading dimensions, offsets) times buffer length "
         "{-1,0,+1}, plus 0 and -1, or values near 2^31 / 2^63 and co-factors that make 32-bit products wrap, every tuple "
         "executed; lapack_box: the same for 62 call forms of 56 LAPACK wrappers incl. shortened pivot/tau/W/diagonal "
         "vectors; base_asan: base.gemm/gemv/syrk/symv/axpy on dense/sparse operands of arbitrary, also mismatching, shapes "
         "and typecodes, all flags, partial, extreme m/n/inc/offset values; index_asan: dense and sparse indexing, indexed "
         "assignment, spmatrix(), size changes with indices and sizes in {-len-2..len+1, +-2^31, +-2^63, 2^62, 2^45}; "
         "misc_asan: the misc_solvers kernels inside their contract (C08 generator). Non-trivial = tuple whose model class "
         "is decided (must accept / must refuse), LAPACK tuple that is accepted or does not fit, accepted base/index call.",
    assumptions=["vlib/spec_blas.py footprints (C17); LAPACK extents A(ld,cols), pivot/tau/W lengths from the docstrings",
                 "LAPACK: only 'accepted => every addressed block fits' is judged (wrappers may be stricter than the footprint, e.g. orgqr)",
                 "pivot vectors passed to getrs/sytrs/gbtrs/gttrs/getri are valid pivot sequences (contents of ipiv are outside the domain)",
                 "misc_solvers kernels are called with vector lengths consistent with dims (they validate nothing by design)",
                 "tuples whose extent does not fit in a C int are excluded by predicate (known finding blas-int-overflow) and counted",
                 "OpenBLAS/LAPACK are not instrumented: inside them only the model, crashes and the contents of the arguments are observable"],
    technique="exhaustive boundary boxes around generated calls with a footprint model as oracle; fuzzing of the compiled "
              "extension under AddressSanitizer with crash attribution by journaling (Hypothesis)",
    level_text="~3e5 (quick) / 1e7 (thorough) BLAS tuples and ~2e5 / 7e6 LAPACK tuples on decision boundaries and near 2^31, "
               "all executed; 1.2e4/1.6e4/4e3 (quick) ASan-instrumented base / indexing / misc_solvers calls.",
    level_note="The page-guard allocator sketched in the design was not built; out-of-bounds accesses inside OpenBLAS/LAPACK are "
               "only visible through the model, crashes and modified neighbours inside the same argument.",
    design_ref="4/C19")

reg("C20", "c20", [("roundtrip", "plain", 6), ("histories", "asan", 10)], "exploration",
    rule="[in-place operators in histories also take matrix operands.] roundtrip: Hypothesis draws a dense ('i','d','z') or sparse ('d','z') matrix of size 0..4 x 0..4 with special values "
         "(-0.0, nan, +-inf, 1e308, 5e-324, +-2^63) and explicit zeros, and one of 15 ways of copying it (pickle protocols "
         "0-5, pickle to a file, copy, deepcopy, deepcopy inside a container, matrix(x)/spmatrix(V,I,J), +x, x[:,:], "
         "tofile/fromfile, rebuilt from pickled triplets), or a buffer source (numpy arrays of 11 dtypes, 0-3 dimensions, "
         "C/F order, steps +-1/+-2, transposed; array.array; memoryview of a matrix; cast memoryviews; bytes), optionally "
         "behind an exporter that counts acquire/release, with and without tc, or an export through memoryview/numpy, or a "
         "short file. histories: 3-12 steps on one dense matrix out of export (memoryview, numpy), element assignment, "
         "in-place operators incl. type-changing ones, writes through an exported view, copies and mutation of copies, size "
         "change, aliasing, release of a view, dropping every name of the matrix while views are held, fromfile, heap churn; "
         "the extension is built with AddressSanitizer. Non-trivial = copy that could be mutated on both sides, import of >= 2 "
         "elements, history with an exported view and >= 2 mutations.",
    assumptions=["equality is judged on size, typecode and repr() of every element (distinguishes nan, -0.0) and, for sparse "
                 "matrices, on the I, J, V triplet lists",
                 "importable buffer formats are 'l', 'i', 'd', 'Zd' with 1 or 2 dimensions (doc/source/matrices.rst, dense.c FMT_STR)",
                 "numpy is the reference reader of exported buffers"],
    technique="property-based round-trip and model-based stateful testing (Hypothesis) of sharing/independence, under AddressSanitizer",
    level_text="~8e4 (quick) / 2.5e6 (thorough) round trips and imports/exports compared exactly, ~1.2e4 / 4e5 aliasing histories "
               "with a sharing model checked after every step under ASan.",
    level_note="Trusts numpy's buffer consumer and pickle/copy of the standard library.",
    design_ref="4/C20")


# ---- parts added after the first version of the texts above
from checks.registry import REGISTRY as _R
_R["C09"]["level_text"] += (" Part refinement: the solve counts of a counting user KKT solver must be linear in 'refinement' (0, 1, 2) and the "
                            "absent option must equal the documented default; GLPK calls and the back-ends' module options are part "
                            "of the isolation images.")
_R["C10"]["level_text"] += (" Part restore: steep-exponential cpl instances with every factorization failing together with the retry that "
                            "follows cpl's restore (half of them with a user-defined y type); 'unknown' results are recomputed field by field.")
for _p, _t in (("C11", "generator"), ("C13", "histories"), ("C14", "generated MPS files of the reader part")):
    _R[_p]["level_text"] += " A coverage-guided part (atheris/libFuzzer on cvxopt/modeling.py) drives the same %s with the same oracle." % _t
