"""C02 — infeasibility statuses carry valid Farkas certificates."""
import numpy as np
from hypothesis import strategies as st
from vlib.harness import Violation, run_given
from vlib import ref_cone as rc, gen_cone as gc, judge, runlp
from checks.c01 import GLPK_LOOSE, DSDP_LOOSE


@st.composite
def case_strategy(draw):
    kind = draw(st.sampled_from(["pinf"] * 4 + ["dinf"] * 4 + ["rand", "rand", "feas", "feas"]))
    kinds = draw(st.sampled_from(["l", "l", "lq", "lq", "ls", "ls", "lqs", "lqs", "q", "s"]))
    prob = draw(gc.cone_case(kind=kind, kinds=kinds))
    cfg = draw(runlp.config(prob["dims"], prob["p"]))
    return dict(prob=prob, cfg=cfg)


@st.composite
def op_case_strategy(draw):
    kind = draw(st.sampled_from(["pinf"] * 4 + ["dinf"] * 4 + ["rand", "feas"]))
    prob = draw(gc.cone_case(kind=kind, kinds="l", dims=None))
    n, N, p = prob["n"], prob["dims"]["l"], prob["p"]
    cfg = dict(format=draw(st.sampled_from(["dense", "sparse"])),
               solver=draw(st.sampled_from(["default", "default", "default", "glpk"])),
               n1=draw(st.integers(1, n)),
               isplit=draw(st.integers(0, N)),
               esplit=draw(st.integers(0, p)),
               spcoef=draw(st.booleans()))
    return dict(prob=prob, cfg=cfg)


def judge_status(D, sol, v, cfg, feastol):
    status = sol["status"]
    loose = None
    if cfg.get("solver") == "dsdp":
        loose = DSDP_LOOSE
    if status == "primal infeasible":
        if cfg.get("solver") == "glpk":
            bad = [k for k, val in sol.items() if k != "status" and val is not None]
            return ["glpk 'primal infeasible' but fields %r are not None" % bad] if bad else []
        return judge.judge_primal_infeasible(D, sol, v, feastol, loose)
    if status == "dual infeasible":
        if cfg.get("solver") == "glpk":
            bad = [k for k, val in sol.items() if k != "status" and val is not None]
            return ["glpk 'dual infeasible' but fields %r are not None" % bad] if bad else []
        return judge.judge_dual_infeasible(D, sol, v, feastol, loose)
    return []


def oracle(case, stats=None):
    prob, cfg = case["prob"], case["cfg"]
    mat = gc.materialize(prob)
    dims = mat["dims"]
    labels = ["kind:" + prob["kind"], "entry:" + cfg["entry"], "kkt:" + str(cfg["kkt"]),
              "solver:" + str(cfg["solver"])]
    if not mat["rank_ok"]:
        if stats is not None:
            stats.evaluated(case, False, labels + ["skipped:rank_deficient"])
        return
    try:
        sol = runlp.call(cfg, mat)
    except Exception as e:
        if stats is not None:
            stats.evaluated(case, False, labels + ["raised:" + type(e).__name__])
        return
    status = sol["status"]
    labels.append("status:" + status)
    nontrivial = False
    if status in ("primal infeasible", "dual infeasible"):
        D = judge.Data(mat["c"], mat["G"], mat["h"], mat["A"], mat["b"], dims)
        v, msgs = judge.unpack_solution(sol, dims, cfg["entry"])
        feastol = runlp.effective_tols(cfg)[0]
        if not msgs:
            msgs = judge_status(D, sol, v, cfg, feastol)
        if not msgs and cfg["entry"] in ("socp", "sdp") and cfg["solver"] is None:
            from checks.c01 import compare_wrapper
            msgs += compare_wrapper(cfg, mat, sol, labels)
        if msgs:
            raise Violation("status %r (%s, kkt=%s, solver=%s) but: %s" % (
                status, cfg["entry"], cfg["kkt"], cfg["solver"], "; ".join(msgs[:4])))
        big = any(m >= 2 for m in dims["q"]) or any(m >= 2 for m in dims["s"])
        nontrivial = (big or mat["p"] > 0) and cfg["solver"] != "glpk"
    if stats is not None:
        stats.evaluated(case, nontrivial, labels)


# ------------------------------------------------------------------ op.solve

def build_op(mat, cfg):
    from cvxopt import matrix, sparse
    from cvxopt.modeling import variable, op, dot
    n, N, p = mat["n"], mat["dims"]["l"], mat["p"]
    n1 = cfg["n1"]
    xs = [variable(n1, "xa")] + ([variable(n - n1, "xb")] if n1 < n else [])
    cols = [(0, n1)] + ([(n1, n)] if n1 < n else [])

    def aff(M, rows):
        f = None
        for x, (a, b) in zip(xs, cols):
            blk = gc.cvx_dense(M[rows[0]:rows[1], a:b])
            if cfg["spcoef"]:
                blk = sparse(blk)
            t = blk * x
            f = t if f is None else f + t
        return f
    c = mat["c"]
    obj = None
    for x, (a, b) in zip(xs, cols):
        t = dot(gc.cvx_dense(c[a:b]), x)
        obj = t if obj is None else obj + t
    cons, crows = [], []
    isp = cfg["isplit"]
    for rows in ((0, isp), (isp, N)):
        if rows[1] > rows[0]:
            cons.append(aff(mat["G"], rows) <= gc.cvx_dense(mat["h"][rows[0]:rows[1]]))
            crows.append(("i", rows))
    esp = cfg["esplit"]
    for rows in ((0, esp), (esp, p)):
        if rows[1] > rows[0]:
            cons.append(aff(mat["A"], rows) == gc.cvx_dense(mat["b"][rows[0]:rows[1]]))
            crows.append(("e", rows))
    return op(obj, cons), xs, cols, cons, crows


def op_oracle(case, stats=None):
    prob, cfg = case["prob"], case["cfg"]
    mat = gc.materialize(prob)
    labels = ["op", "kind:" + prob["kind"], "format:" + cfg["format"], "solver:" + cfg["solver"]]
    if not mat["rank_ok"] or mat["dims"]["l"] == 0:
        if stats is not None:
            stats.evaluated(case, False, labels + ["skipped"])
        return
    P, xs, cols, cons, crows = build_op(mat, cfg)
    opts = {"show_progress": False, "glpk": {"msg_lev": "GLP_MSG_OFF"}}
    try:
        P.solve(cfg["format"], cfg["solver"], options=opts)
    except Exception as e:
        if stats is not None:
            stats.evaluated(case, False, labels + ["raised:" + type(e).__name__])
        return
    status = P.status
    labels.append("status:" + str(status))
    n, N, p = mat["n"], mat["dims"]["l"], mat["p"]
    msgs = []
    nontrivial = False
    xvals = [x.value for x in xs]
    mvals = [c.multiplier.value for c in cons]
    D = judge.Data(mat["c"], mat["G"], mat["h"], mat["A"], mat["b"], mat["dims"])
    feastol = 1e-7
    if status == "primal infeasible":
        if any(v is not None for v in xvals):
            msgs.append("'primal infeasible' but variable values are not None")
        if cfg["solver"] == "glpk":
            if any(v is not None for v in mvals):
                msgs.append("glpk 'primal infeasible' but multipliers are not None")
        elif any(v is None for v in mvals):
            msgs.append("'primal infeasible' but some multiplier is None")
        else:
            z = np.zeros(N)
            y = np.zeros(p)
            for (kind, rows), mv, c in zip(crows, mvals, cons):
                if len(mv) != len(c):
                    msgs.append("multiplier length %d != constraint length %d" % (len(mv), len(c)))
                    continue
                (z if kind == "i" else y)[rows[0]:rows[1]] = list(mv)
            if not msgs:
                hz = float(D.h @ z + D.b @ y)
                if abs(hz + 1) > 1e-9 * (judge.nrm(D.h) * judge.nrm(z) + judge.nrm(D.b) * judge.nrm(y) + 1):
                    msgs.append("multipliers: h'z+b'y = %r, not -1" % hz)
                if N and z.min() < -1e-9 * max(1.0, judge.nrm(z)):
                    msgs.append("inequality multipliers not nonnegative: %r" % z.min())
                res = judge.nrm(D.G.T @ z + D.A.T @ y) / D.resx0
                if res > feastol * (1 + 1e-6) + 1e-9 * (D.nG * judge.nrm(z) + D.nA * judge.nrm(y)):
                    msgs.append("||G'z+A'y||/max(1,||c||) = %.3e > feastol" % res)
            nontrivial = len(cons) >= 2
    elif status == "dual infeasible":
        if any(v is not None for v in mvals):
            msgs.append("'dual infeasible' but multipliers are not None")
        if cfg["solver"] == "glpk":
            if any(v is not None for v in xvals):
                msgs.append("glpk 'dual infeasible' but variable values are not None")
        elif any(v is None for v in xvals):
            msgs.append("'dual infeasible' but some variable value is None")
        else:
            x = np.concatenate([np.array(list(v)) for v in xvals])
            cx = float(D.c @ x)
            if abs(cx + 1) > 1e-9 * (judge.nrm(D.c) * judge.nrm(x) + 1):
                msgs.append("c'x = %r, not -1" % cx)
            res = max(judge.nrm(np.maximum(D.G @ x, 0)) / D.resz0, judge.nrm(D.A @ x) / D.resy0)
            if res > feastol * (1 + 1e-6) + 1e-9 * (D.nG + D.nA) * judge.nrm(x):
                msgs.append("ray residual max(||(Gx)+||/max(1,||h||), ||Ax||/max(1,||b||)) = %.3e > feastol" % res)
            nontrivial = len(xs) >= 2 or len(cons) >= 2
    elif status == "unknown":
        pass
    if msgs:
        raise Violation("op.solve status %r (format=%s solver=%s): %s" % (status, cfg["format"], cfg["solver"],
                                                                      "; ".join(msgs[:4])))
    if stats is not None:
        stats.evaluated(case, nontrivial, labels)


def search(ctx, stats):
    if ctx.part == "op":
        n = ctx.n(6000, 100000)
        v = run_given(op_case_strategy(), lambda c: op_oracle(c, stats), ctx.seed, n, stats)
    else:
        n = ctx.n(16000, 300000)
        v = run_given(case_strategy(), lambda c: oracle(c, stats), ctx.seed, n, stats)
    return [v] if v else []


def replay(case, part):
    try:
        (op_oracle if part == "op" else oracle)(case)
    except Violation as v:
        return v.msg
    return None
