"""C19 — no argument values make the C extension access memory outside its matrices.

parts
  blas_box    (plain)  boundary boxes and near-2^31 values around valid BLAS calls, decision vs. footprint model (spec_blas)
  lapack_box  (plain)  the same for 45 LAPACK wrappers with a one-directional oracle: accepted => every footprint fits
  base_asan   (asan)   base.gemm/gemv/syrk/symv/axpy with dense/sparse operands of arbitrary (mismatching) shapes
  index_asan  (asan)   dense/sparse construction, indexing and assignment with extreme index values
  misc_asan   (asan)   misc_solvers kernels inside their contract (the C08 generator) under AddressSanitizer
A crash of the interpreter or an ASan report is attributed by the runner to the journaled case.
"""
import itertools
import numpy as np
from hypothesis import strategies as st
from vlib.harness import Violation, run_given
from vlib import spec_blas as sb
from vlib.spec_blas import ROUTINES, ACCEPT, REJECT, OPEN
from checks import c17

from cvxopt import matrix, spmatrix, sparse, blas, lapack, base

BIG = [2 ** 31 - 1, 2 ** 31 - 2, 2 ** 30, 2 ** 30 + 1, 2 ** 29 + 3, 715827883, 1431655766, 536870913, -2 ** 31, -2 ** 31 + 1,
       2 ** 31, 2 ** 32 + 1, 2 ** 63 - 1, -2 ** 63, 2 ** 63, 65536, 46341, 3 * 2 ** 29]
EXC = Exception


# ------------------------------------------------------------------ blas_box

def int_keys(f):
    R = ROUTINES[f]
    return [k for k in list(R["intpos"]) + list(R["kws"]) if k not in R["flags"] and k not in ("alpha", "beta")]


@st.composite
def blas_box_strategy(draw):
    base_case = draw(c17.case_strategy().filter(lambda c: "mut" not in c and sb.resolve(c)[0] == ACCEPT))
    keys = int_keys(base_case["f"])
    k1 = draw(st.sampled_from(keys))
    k2 = draw(st.sampled_from(keys))
    mode = draw(st.sampled_from(["box", "box", "big", "big2"]))
    buf = draw(st.sampled_from(sorted(base_case["size"])))
    big = [draw(st.sampled_from(BIG)) for _ in range(3)]
    return dict(base=base_case, k1=k1, k2=k2, mode=mode, buf=buf, big=big)


def default_of(key):
    if key.startswith("inc"):
        return 1
    if key.startswith(("offset", "ld")):
        return 0
    return -1


def variants(case):
    b = case["base"]
    k1, k2 = case["k1"], case["k2"]
    v1 = b["kw"].get(k1, default_of(k1))
    v2 = b["kw"].get(k2, default_of(k2))
    out = []
    if case["mode"] == "box":
        L = b["size"][case["buf"]][0] * b["size"][case["buf"]][1]
        for d1, d2, dl in itertools.product((-2, -1, 0, 1, 2), (-2, -1, 0, 1, 2), (0,)):
            kw = dict(b["kw"])
            kw[k1] = v1 + d1
            if k2 != k1:
                kw[k2] = v2 + d2
            elif d2:
                continue
            size = dict(b["size"])
            if dl:
                size[case["buf"]] = [max(L + dl, 0), 1]
            out.append(dict(b, kw=kw, size=size))
        for z1 in (0, -1):
            kw = dict(b["kw"])
            kw[k1] = z1
            out.append(dict(b, kw=kw))
    elif case["mode"] == "big":
        for g in case["big"]:
            for d in (0, 1, -1):
                kw = dict(b["kw"])
                kw[k1] = g + d
                out.append(dict(b, kw=kw))
    else:
        for g1, g2 in itertools.product(case["big"][:2], case["big"][1:]):
            kw = dict(b["kw"])
            kw[k1] = g1
            kw[k2] = g2
            out.append(dict(b, kw=kw))
            kw = dict(b["kw"])
            kw[k1] = g1
            kw[k2] = (2 ** 31 + abs(g1) - 1) // max(abs(g1), 1) + 1      # co-factor that makes the product wrap
            out.append(dict(b, kw=kw))
    return out


def run_blas_variant(vc, stats, force=False):
    f = vc["f"]
    R = ROUTINES[f]
    toobig = any(isinstance(v, int) and not (-2 ** 31 <= v <= 2 ** 31 - 1) for v in vc["kw"].values())
    if toobig:
        cls, why, ops, sem = OPEN, "argument outside the C int range", None, None
    else:
        cls, why, ops, sem = sb.resolve(vc)
        if sb.int_overflow(vc, ops) and not force:
            if stats is not None:
                stats.exclude("blas-int-overflow")
            return
    bufs = c17.fill(vc, ops, cls)
    mats = {n_: c17.to_cvx(bufs[n_], vc["size"][n_], vc["tcs"][n_]) for n_ in bufs}
    before = {n_: list(mats[n_]) for n_ in mats}
    args = []
    for p in R["pos"]:
        if p in mats:
            args.append(mats[p])
        elif p == "alpha":
            args.append(c17.cnum(vc.get("alpha", 1.0)))
        else:
            args.append(vc["kw"][p])
    kwargs = {k_: v for k_, v in vc["kw"].items() if k_ not in R["pos"]}
    for sc in ("alpha", "beta"):
        if sc in vc and sc not in R["pos"]:
            kwargs[sc] = c17.cnum(vc[sc])
    what = c17.describe(vc)
    try:
        getattr(blas, f)(*args, **kwargs)
        err = None
    except EXC as e:
        err = e
    after = {n_: list(mats[n_]) for n_ in mats}
    if err is not None:
        if cls == ACCEPT:
            raise Violation("%s: the footprint fits and all documented rules hold, but the call was refused: %s: %s" % (what, type(err).__name__, err))
        for n_ in mats:
            if repr(after[n_]) != repr(before[n_]):
                raise Violation("%s: refused (%s) but %s was modified" % (what, err, n_))
    else:
        if cls == REJECT:
            raise Violation("%s: accepted although %s" % (what, why))
        if ops is not None and cls == ACCEPT:
            for o in ops:
                wr = set(o.footprint()) if "w" in o.mode else set()
                for k_ in range(len(after[o.name])):
                    if k_ not in wr and repr(after[o.name][k_]) != repr(before[o.name][k_]):
                        raise Violation("%s: element %d of %s changed outside the addressed footprint" % (what, k_, o.name))
    if stats is not None:
        stats.evaluated(vc, cls != OPEN, ["blas:" + f, "class:" + cls, "outcome:" + ("refused" if err else "done")])


def blas_box_oracle(case, stats=None):
    for vc in variants(case):
        run_blas_variant(vc, stats)
        # the decision boundary of every buffer: exactly long enough / one element short (other arguments as they are)
        if any(isinstance(v, int) and not (-2 ** 31 <= v <= 2 ** 31 - 1) for v in vc["kw"].values()):
            continue
        ops = sb.resolve(vc)[2]
        if not ops or sb.int_overflow(vc, ops):
            continue
        for o in ops:
            nd = o.need()
            if nd <= 0 or nd > 4096:
                continue
            for d in (0, -1):
                size = dict(vc["size"])
                size[o.name] = [nd + d, 1]
                if size[o.name] != list(vc["size"][o.name]) or True:
                    run_blas_variant(dict(vc, size=size), stats)


# ------------------------------------------------------------------ lapack_box

def _spd(n, tc):
    A = matrix(0.0, (n, n), tc)
    for i in range(n):
        for j in range(n):
            A[i, j] = 4.0 if i == j else 0.1 * (((i * 7 + j * 3) % 5 + (j * 7 + i * 3) % 5) - 4)
    return A


# routine -> (dims with base values, operands, positional argument names, extra keyword arguments)
# operand: (name, "M", rows expr, cols expr) matrix with ld<name>/offset<name>;  (name, "V", length expr, typecode or None[, offset keyword])
LT = {
    "getrf": (dict(m=3, n=4), [("A", "M", "m", "n"), ("ipiv", "V", "min(m,n)", "i")], ["A", "ipiv"], {}),
    "getrs": (dict(n=3, nrhs=2), [("A", "M", "n", "n"), ("ipiv", "V", "n", "i"), ("B", "M", "n", "nrhs")], ["A", "ipiv", "B"], {}),
    "getri": (dict(n=3), [("A", "M", "n", "n"), ("ipiv", "V", "n", "i")], ["A", "ipiv"], {}),
    "gesv": (dict(n=3, nrhs=2), [("A", "M", "n", "n"), ("B", "M", "n", "nrhs")], ["A", "B"], {}),
    "gesv+ipiv": (dict(n=3, nrhs=2), [("A", "M", "n", "n"), ("B", "M", "n", "nrhs"), ("ipiv", "V", "n", "i")], ["A", "B", "ipiv"], {}),
    "potrf": (dict(n=3), [("A", "M", "n", "n")], ["A"], {}),
    "potrs": (dict(n=3, nrhs=2), [("A", "M", "n", "n"), ("B", "M", "n", "nrhs")], ["A", "B"], {}),
    "potri": (dict(n=3), [("A", "M", "n", "n")], ["A"], {}),
    "posv": (dict(n=3, nrhs=2), [("A", "M", "n", "n"), ("B", "M", "n", "nrhs")], ["A", "B"], {}),
    "sytrf": (dict(n=3), [("A", "M", "n", "n"), ("ipiv", "V", "n", "i")], ["A", "ipiv"], {}),
    "hetrf": (dict(n=3), [("A", "M", "n", "n"), ("ipiv", "V", "n", "i")], ["A", "ipiv"], {}),
    "sytrs": (dict(n=3, nrhs=2), [("A", "M", "n", "n"), ("ipiv", "V", "n", "i"), ("B", "M", "n", "nrhs")], ["A", "ipiv", "B"], {}),
    "hetrs": (dict(n=3, nrhs=2), [("A", "M", "n", "n"), ("ipiv", "V", "n", "i"), ("B", "M", "n", "nrhs")], ["A", "ipiv", "B"], {}),
    "sytri": (dict(n=3), [("A", "M", "n", "n"), ("ipiv", "V", "n", "i")], ["A", "ipiv"], {}),
    "hetri": (dict(n=3), [("A", "M", "n", "n"), ("ipiv", "V", "n", "i")], ["A", "ipiv"], {}),
    "sysv": (dict(n=3, nrhs=2), [("A", "M", "n", "n"), ("B", "M", "n", "nrhs")], ["A", "B"], {}),
    "hesv": (dict(n=3, nrhs=2), [("A", "M", "n", "n"), ("B", "M", "n", "nrhs")], ["A", "B"], {}),
    "sysv+ipiv": (dict(n=3, nrhs=2), [("A", "M", "n", "n"), ("B", "M", "n", "nrhs"), ("ipiv", "V", "n", "i")], ["A", "B", "ipiv"], {}),
    "trtrs": (dict(n=3, nrhs=2), [("A", "M", "n", "n"), ("B", "M", "n", "nrhs")], ["A", "B"], {}),
    "trtri": (dict(n=3), [("A", "M", "n", "n")], ["A"], {}),
    "gels": (dict(m=4, n=3, nrhs=2), [("A", "M", "m", "n"), ("B", "M", "max(m,n)", "nrhs")], ["A", "B"], {}),
    "geqrf": (dict(m=4, n=3), [("A", "M", "m", "n"), ("tau", "V", "min(m,n)", None)], ["A", "tau"], {}),
    "gelqf": (dict(m=3, n=4), [("A", "M", "m", "n"), ("tau", "V", "min(m,n)", None)], ["A", "tau"], {}),
    "geqp3": (dict(m=4, n=3), [("A", "M", "m", "n"), ("jpvt", "V", "n", "i"), ("tau", "V", "min(m,n)", None)], ["A", "jpvt", "tau"], {}),
    "orgqr": (dict(m=4, n=3, k=2), [("A", "M", "m", "n"), ("tau", "V", "k", None)], ["A", "tau"], {}),
    "ungqr": (dict(m=4, n=3, k=2), [("A", "M", "m", "n"), ("tau", "V", "k", None)], ["A", "tau"], {}),
    "orglq": (dict(m=3, n=4, k=2), [("A", "M", "m", "n"), ("tau", "V", "k", None)], ["A", "tau"], {}),
    "unglq": (dict(m=3, n=4, k=2), [("A", "M", "m", "n"), ("tau", "V", "k", None)], ["A", "tau"], {}),
    "ormqr": (dict(m=4, n=3, k=2), [("A", "M", "m", "k"), ("tau", "V", "k", None), ("C", "M", "m", "n")], ["A", "tau", "C"], {}),
    "unmqr": (dict(m=4, n=3, k=2), [("A", "M", "m", "k"), ("tau", "V", "k", None), ("C", "M", "m", "n")], ["A", "tau", "C"], {}),
    "ormqr/R": (dict(m=4, n=3, k=2), [("A", "M", "n", "k"), ("tau", "V", "k", None), ("C", "M", "m", "n")], ["A", "tau", "C"], {"side": "R"}),
    "ormlq": (dict(m=4, n=3, k=2), [("A", "M", "k", "m"), ("tau", "V", "k", None), ("C", "M", "m", "n")], ["A", "tau", "C"], {}),
    "unmlq/R": (dict(m=4, n=3, k=2), [("A", "M", "k", "n"), ("tau", "V", "k", None), ("C", "M", "m", "n")], ["A", "tau", "C"], {"side": "R"}),
    "syev": (dict(n=3), [("A", "M", "n", "n"), ("W", "V", "n", "d", "offsetW")], ["A", "W"], {"jobz": "V"}),
    "heev": (dict(n=3), [("A", "M", "n", "n"), ("W", "V", "n", "d", "offsetW")], ["A", "W"], {}),
    "syevd": (dict(n=3), [("A", "M", "n", "n"), ("W", "V", "n", "d", "offsetW")], ["A", "W"], {"jobz": "V"}),
    "heevd": (dict(n=3), [("A", "M", "n", "n"), ("W", "V", "n", "d", "offsetW")], ["A", "W"], {}),
    "heevr": (dict(n=3), [("A", "M", "n", "n"), ("W", "V", "n", "d", "offsetW"), ("Z", "M", "n", "n")], ["A", "W"], {"jobz": "V", "Z": "Z"}),
    "syevx": (dict(n=3), [("A", "M", "n", "n"), ("W", "V", "n", "d", "offsetW"), ("Z", "M", "n", "n")], ["A", "W"], {"jobz": "V", "Z": "Z"}),
    "sygv": (dict(n=3), [("A", "M", "n", "n"), ("B", "M", "n", "n"), ("W", "V", "n", "d", "offsetW")], ["A", "B", "W"], {"jobz": "V"}),
    "hegv": (dict(n=3), [("A", "M", "n", "n"), ("B", "M", "n", "n"), ("W", "V", "n", "d", "offsetW")], ["A", "B", "W"], {}),
    "gesvd": (dict(m=4, n=3), [("A", "M", "m", "n"), ("S", "V", "min(m,n)", "d", "offsetS")], ["A", "S"], {}),
    "gesvd/A": (dict(m=4, n=3), [("A", "M", "m", "n"), ("S", "V", "min(m,n)", "d", "offsetS"), ("U", "M", "m", "m"), ("Vt", "M", "n", "n")],
                ["A", "S"], {"jobu": "A", "jobvt": "A", "U": "U", "Vt": "Vt"}),
    "gesdd/S": (dict(m=4, n=3), [("A", "M", "m", "n"), ("S", "V", "min(m,n)", "d", "offsetS"), ("U", "M", "m", "min(m,n)"), ("Vt", "M", "min(m,n)", "n")],
                ["A", "S"], {"jobz": "S", "U": "U", "Vt": "Vt"}),
    "gees": (dict(n=3), [("A", "M", "n", "n"), ("w", "V", "n", "z", "offsetw"), ("V", "M", "n", "n")], ["A"], {"w": "w", "V": "V"}),
    "gges": (dict(n=3), [("A", "M", "n", "n"), ("B", "M", "n", "n"), ("a", "V", "n", "z", "offseta"), ("b", "V", "n", "d", "offsetb")], ["A", "B"], {"a": "a", "b": "b"}),
    "lacpy": (dict(m=3, n=4), [("A", "M", "m", "n"), ("B", "M", "m", "n")], ["A", "B"], {}),
    "larfx": (dict(m=3, n=4), [("v", "V", "m", None, "offsetv"), ("C", "M", "m", "n")], ["v", "#tau", "C"], {}),
    "pbtrf": (dict(n=4, kd=1), [("A", "M", "kd+1", "n")], ["A"], {}),
    "pbtrs": (dict(n=4, kd=1, nrhs=2), [("A", "M", "kd+1", "n"), ("B", "M", "n", "nrhs")], ["A", "B"], {}),
    "pbsv": (dict(n=4, kd=1, nrhs=2), [("A", "M", "kd+1", "n"), ("B", "M", "n", "nrhs")], ["A", "B"], {}),
    "tbtrs": (dict(n=4, kd=1, nrhs=2), [("A", "M", "kd+1", "n"), ("B", "M", "n", "nrhs")], ["A", "B"], {}),
    "gbtrf": (dict(m=4, kl=1, n=4, ku=1), [("A", "M", "2*kl+ku+1", "n"), ("ipiv", "V", "min(m,n)", "i")], ["A", "#m", "#kl", "ipiv"], {}),
    "gbtrs": (dict(kl=1, n=4, ku=1, nrhs=2), [("A", "M", "2*kl+ku+1", "n"), ("ipiv", "V", "n", "i"), ("B", "M", "n", "nrhs")], ["A", "#kl", "ipiv", "B"], {}),
    "gbsv": (dict(kl=1, n=4, ku=1, nrhs=2), [("A", "M", "kl+ku+1", "n"), ("B", "M", "n", "nrhs")], ["A", "#kl", "B"], {}),
    "gtsv": (dict(n=4, nrhs=2), [("dl", "V", "n-1", None, "offsetdl"), ("d", "V", "n", None, "offsetd"), ("du", "V", "n-1", None, "offsetdu"), ("B", "M", "n", "nrhs")],
             ["dl", "d", "du", "B"], {}),
    "gttrf": (dict(n=4), [("dl", "V", "n-1", None, "offsetdl"), ("d", "V", "n", None, "offsetd"), ("du", "V", "n-1", None, "offsetdu"), ("du2", "V", "n-2", None), ("ipiv", "V", "n", "i")],
              ["dl", "d", "du", "du2", "ipiv"], {}),
    "gttrs": (dict(n=4, nrhs=2), [("dl", "V", "n-1", None, "offsetdl"), ("d", "V", "n", None, "offsetd"), ("du", "V", "n-1", None, "offsetdu"), ("du2", "V", "n-2", None),
                                  ("ipiv", "V", "n", "i"), ("B", "M", "n", "nrhs")], ["dl", "d", "du", "du2", "ipiv", "B"], {}),
    "pttrf": (dict(n=4), [("d", "V", "n", "d", "offsetd"), ("e", "V", "n-1", None, "offsete")], ["d", "e"], {}),
    "pttrs": (dict(n=4, nrhs=2), [("d", "V", "n", "d", "offsetd"), ("e", "V", "n-1", None, "offsete"), ("B", "M", "n", "nrhs")], ["d", "e", "B"], {}),
    "ptsv": (dict(n=4, nrhs=2), [("d", "V", "n", "d", "offsetd"), ("e", "V", "n-1", None, "offsete"), ("B", "M", "n", "nrhs")], ["d", "e", "B"], {}),
}
LNAMES = sorted(LT)


@st.composite
def lapack_box_strategy(draw):
    name = draw(st.sampled_from(LNAMES))
    dims, ops, pos, extra = LT[name]
    tc = draw(st.sampled_from("dz"))
    keys = [k for k in dims if ("#" + k) not in pos]
    for o in ops:
        if o[1] == "M":
            keys += ["ld" + o[0], "offset" + o[0]]
        elif len(o) > 4:
            keys.append(o[4])
    k1, k2 = draw(st.sampled_from(keys)), draw(st.sampled_from(keys))
    base_dims = {k: max(0, v + draw(st.integers(-1, 1))) for k, v in dims.items()}
    for a_, b_ in (("n", "m"), ("k", "n")):
        if name in ("orgqr", "ungqr") and a_ in base_dims and b_ in base_dims:
            base_dims[a_] = min(base_dims[a_], base_dims[b_])
    if "k" in base_dims:
        base_dims["k"] = min(base_dims["k"], base_dims.get("m", 99), base_dims.get("n", 99))
    if name in ("orglq", "unglq"):
        base_dims["m"] = min(base_dims["m"], base_dims["n"])
        base_dims["k"] = min(base_dims["k"], base_dims["m"])
    return dict(name=name, tc=tc, dims=base_dims, k1=k1, k2=k2, mode=draw(st.sampled_from(["box", "box", "big", "short", "tcmix"])),
                big=[draw(st.sampled_from(BIG)) for _ in range(2)], buf=draw(st.sampled_from([o[0] for o in ops])),
                explicit=draw(st.booleans()))


def lapack_variants(case):
    name = case["name"]
    dims, ops, pos, extra = LT[name]
    base_kw = {}
    if case["explicit"]:
        base_kw = {k: v for k, v in case["dims"].items() if ("#" + k) not in pos}
    k1, k2 = case["k1"], case["k2"]

    def cur(k):
        if k in case["dims"]:
            return case["dims"][k]
        return 0 if k.startswith(("offset",)) else None

    out = []
    if case["mode"] == "box":
        for d1, d2 in itertools.product((-2, -1, 0, 1, 2), (-1, 0, 1)):
            kw = dict(base_kw)
            for k, d in ((k1, d1), (k2, d2)):
                if k.startswith("ld"):
                    kw[k] = ("ld", d)          # resolved against the natural ld below
                else:
                    c0 = cur(k)
                    kw[k] = (c0 if c0 is not None else 0) + d
            out.append((kw, 0))
    elif case["mode"] == "big":
        for g in case["big"]:
            for k in (k1, k2):
                kw = dict(base_kw)
                kw[k] = g
                out.append((kw, 0))
        kw = dict(base_kw)
        kw[k1], kw[k2] = case["big"][0], case["big"][1]
        out.append((kw, 0))
    elif case["mode"] == "tcmix":
        for alt in (0, 1):
            out.append((dict(base_kw), ("tc", alt)))
    else:
        for dl in (-1, -2, -3):
            out.append((dict(base_kw), dl))
            kw = dict(base_kw)
            c0 = cur(k1)
            if not k1.startswith("ld"):
                kw[k1] = (c0 if c0 is not None else 0) + 1
                out.append((kw, dl))
    return out


def run_lapack_variant(case, kw, dl, stats):
    name = case["name"]
    fname = name.split("+")[0].split("/")[0]
    dims, ops, pos, extra = LT[name]
    tc = case["tc"]
    D = case["dims"]
    objs, nat = {}, {}
    tcmix = None
    if isinstance(dl, tuple):
        tcmix, dl = dl[1], 0
    for o in ops:
        if o[1] == "M":
            r, c_ = max(eval(o[2], {}, dict(D, min=min, max=max)), 0), max(eval(o[3], {}, dict(D, min=min, max=max)), 0)
            if o[0] == "A" and r == c_ and fname not in ("getrf",):
                M_ = _spd(r, tc)
            else:
                M_ = matrix([0.25 * ((i * 5) % 7 - 3) + (2.0 if i % (r + 1) == 0 else 0.0) for i in range(r * c_)], (r, c_), tc)
            if fname in ("pbtrf", "pbtrs", "pbsv", "tbtrs") and o[0] == "A" and r > 0:
                for j in range(c_):
                    M_[0, j] = 4.0
            if o[0] == case["buf"] and dl and r * c_ + dl >= 0:
                M_ = matrix(list(M_)[:r * c_ + dl], (r * c_ + dl, 1), tc)
            objs[o[0]] = M_
            nat[o[0]] = (r, c_)
        else:
            L = max(eval(o[2], {}, dict(D, min=min, max=max)), 0)
            t = o[3] or tc
            if o[0] == case["buf"] and dl:
                L = max(L + dl, 0)
            if t == "i":
                objs[o[0]] = matrix([k + 1 for k in range(L)], (L, 1), "i") if o[0] != "jpvt" else matrix(0, (L, 1), "i")
            else:
                objs[o[0]] = matrix([3.0 + 0.5 * k for k in range(L)], (L, 1), t)
    mixed = False
    if tcmix is not None:
        o = [o for o in ops if o[0] == case["buf"]][0]
        want = tc if (o[1] == "M" or o[3] is None) else o[3]
        others = [t for t in "dzi" if t != want]
        t2 = others[tcmix % len(others)]
        old_ = objs[o[0]]
        ntc = sum(1 for q in ops if (q[1] == "M" or q[3] is None) and len(objs[q[0]]) > 0)
        meaningful = not (want == tc and (o[1] == "M" or o[3] is None) and t2 in "dz" and ntc < 2)
        if len(old_) > 0 and meaningful:
            vals = [1 for _ in range(len(old_))] if t2 == "i" else [1.5 for _ in range(len(old_))]
            objs[o[0]] = matrix(vals, old_.size, t2)
            mixed = True
    # keyword values
    kwv = {}
    for k, v in kw.items():
        if isinstance(v, tuple):
            r0 = nat[k[2:]][0]
            kwv[k] = max(1, r0) + v[1]
        else:
            kwv[k] = v
    if dl:
        for k in D:
            if ("#" + k) not in pos:
                kwv.setdefault(k, D[k])
        if case["buf"] in nat:
            kwv.setdefault("ld" + case["buf"], max(1, nat[case["buf"]][0]))
    if any(isinstance(v, int) and not (-2 ** 31 <= v <= 2 ** 31 - 1) for v in kwv.values()):
        big = True
    else:
        big = False
    # effective values for the model
    E = dict(D)
    for k, v in kwv.items():
        if k in E:
            E[k] = v if v >= 0 else D[k]
    if "d" in objs and "n" not in kwv:
        E["n"] = max(len(objs["d"]) - kwv.get("offsetd", 0), 0)       # documented default n = len(d) - offsetd
    fits, ovf = True, False
    for o in ops:
        Lb = len(objs[o[0]])
        if o[1] == "M":
            try:
                r, c_ = eval(o[2], {}, dict(E, min=min, max=max)), eval(o[3], {}, dict(E, min=min, max=max))
            except Exception:   # noqa
                continue
            ld = kwv.get("ld" + o[0], 0) or max(1, objs[o[0]].size[0])
            off = kwv.get("offset" + o[0], 0)
            if r > 0 and c_ > 0:
                if off < 0 or ld < 1 or off + (c_ - 1) * ld + r > Lb:
                    fits = False
                if abs(off) + abs(c_) * abs(ld) + abs(r) > 2 ** 31 - 1:
                    ovf = True
        else:
            need = eval(o[2], {}, dict(E, min=min, max=max))
            off = kwv.get(o[4], 0) if len(o) > 4 else 0
            if need > 0 and (off < 0 or off + need > Lb):
                fits = False
            if abs(off) + abs(need) > 2 ** 31 - 1:
                ovf = True
    if any(v == -2 ** 31 for v in kwv.values() if isinstance(v, int)):
        ovf = True
    if ovf and not big:
        if stats is not None:
            stats.exclude("lapack-int-overflow")
        return
    args = []
    for p in pos:
        if p == "#tau":
            args.append(0.5)
        elif p.startswith("#"):
            args.append(kwv.pop(p[1:], D[p[1:]]))
        else:
            args.append(objs[p])
    kwargs = dict(kwv)
    for k, v in extra.items():
        kwargs[k] = objs[v] if v in objs and k in ("Z", "U", "Vt", "w", "V", "a", "b") else v
    if name.endswith("+ipiv"):
        args = args[:2]
        kwargs["ipiv"] = objs["ipiv"]
    what = "lapack.%s(%s) dims=%r kw=%r lens=%r" % (fname, tc, D, kwv, {k: len(v) for k, v in objs.items()})
    try:
        getattr(lapack, fname)(*args, **kwargs)
        err = None
    except EXC as e:
        err = e
    if mixed and err is None and all(E[k] > 0 for k in ("m", "n", "nrhs", "k") if k in E):
        raise Violation("%s: accepted although %s has typecode %r" % (what, case["buf"], objs[case["buf"]].typecode))
    judge = all(v >= 0 for k, v in kwv.items() if k in D) and all(E[k] > 0 for k in ("m", "n", "nrhs", "k") if k in E)
    if err is None and not fits and judge:
        raise Violation("%s: accepted although the addressed blocks do not fit into the arguments" % what)
    if stats is not None:
        stats.evaluated(dict(case, kw=repr(sorted(kwv.items())), dl=dl), not fits or err is None,
                        ["lapack:" + fname, "fits:%r" % fits, "outcome:" + ("refused" if err else "done")])


def lapack_box_oracle(case, stats=None):
    for kw, dl in lapack_variants(case):
        run_lapack_variant(case, kw, dl, stats)


# ------------------------------------------------------------------ base_asan

from checks import c16          # noqa: E402


@st.composite
def base_strategy(draw):
    f = draw(st.sampled_from(["gemm", "gemm", "gemv", "syrk", "symv", "axpy"]))
    tc = draw(st.sampled_from("dz"))
    def opnd():
        t = tc if draw(st.integers(0, 9)) else draw(st.sampled_from("dzi"))
        if draw(st.booleans()):
            return draw(c16.sp_st(tc=t if t != "i" else "d"))
        return draw(c16.dn_st(tc=t if t != "i" else "d"))
    c = dict(f=f, A=opnd(), B=opnd(), C=opnd(), transA=draw(st.sampled_from("NTC")), transB=draw(st.sampled_from("NTC")),
             uplo=draw(st.sampled_from("LU")), alpha=draw(st.sampled_from([None, 1.0, 2.0, 0.0, -1.0])),
             beta=draw(st.sampled_from([None, 0.0, 1.0, 2.0])), partial=draw(st.booleans()),
             ints={k: draw(st.sampled_from([-1, 0, 1, 2, 3, 5, -2, 2 ** 20, 2 ** 31, -2 ** 31 - 1, 2 ** 63])) for k in
                   draw(st.lists(st.sampled_from(["m", "n", "incx", "incy", "offsetA", "offsetx", "offsety"]), max_size=3, unique=True))},
             consistent=draw(st.booleans()))
    if f in ("gemv", "symv") and draw(st.booleans()):
        # strided form: x and y exactly as long as their footprints, so that a wrong start index leaves the buffer
        c["strided"] = dict(incx=draw(st.sampled_from([1, -1, 2, -2])), incy=draw(st.sampled_from([1, -1, 2, -2])),
                            offsetx=draw(st.integers(0, 2)), offsety=draw(st.integers(0, 2)))
        c["consistent"] = True
    return c


def base_oracle(case, stats=None):
    mk = lambda s: c16.mk_sp(s) if "I" in s else c16.mk_dn(s)
    A, B, C = mk(case["A"]), mk(case["B"]), mk(case["C"])
    f = case["f"]
    if case["consistent"]:
        # make the shapes agree with A so that more calls get past the dimension checks
        m, k = A.size if case["transA"] == "N" else A.size[::-1]
        if f == "gemm":
            n = (B.size[1] if case["transB"] == "N" else B.size[0])
            shape_b = (k, n) if case["transB"] == "N" else (n, k)
            B = sparse(matrix(1.5, shape_b, B.typecode)) if isinstance(B, spmatrix) else matrix(1.5, shape_b, B.typecode)
            C = sparse(matrix(0.5, (m, n), C.typecode)) if isinstance(C, spmatrix) else matrix(0.5, (m, n), C.typecode)
        elif f in ("gemv", "symv"):
            B = matrix(1.0, ((k if f == "gemv" else A.size[0]), 1), A.typecode)
            C = matrix(1.0, ((m if f == "gemv" else A.size[0]), 1), A.typecode)
        elif f == "syrk":
            C = sparse(matrix(0.5, (m, m), C.typecode)) if isinstance(C, spmatrix) else matrix(0.5, (m, m), C.typecode)
        else:
            C = sparse(matrix(0.5, A.size, C.typecode)) if isinstance(C, spmatrix) else matrix(0.5, A.size, C.typecode)
    kw = {}
    if case["alpha"] is not None:
        kw["alpha"] = case["alpha"]
    if case["beta"] is not None and f != "axpy":
        kw["beta"] = case["beta"]
    if case["partial"] and f in ("gemm", "syrk", "axpy"):
        kw["partial"] = True
    try:
        if f == "gemm":
            base.gemm(A, B, C, transA=case["transA"], transB=case["transB"], **kw)
            out = C
        elif f == "gemv" and case.get("strided"):
            sd = case["strided"]
            lx, ly = (A.size[1], A.size[0]) if case["transA"] == "N" else A.size
            x = matrix(1.5, (sd["offsetx"] + (1 + (lx - 1) * abs(sd["incx"]) if lx else 0), 1), A.typecode)
            y = matrix(0.5, (sd["offsety"] + (1 + (ly - 1) * abs(sd["incy"]) if ly else 0), 1), A.typecode)
            base.gemv(A, x, y, trans=case["transA"], **dict(kw, **sd))
            out = y
        elif f == "symv" and case.get("strided") and A.size[0] == A.size[1]:
            sd = case["strided"]
            n_ = A.size[0]
            x = matrix(1.5, (sd["offsetx"] + (1 + (n_ - 1) * abs(sd["incx"]) if n_ else 0), 1), A.typecode)
            y = matrix(0.5, (sd["offsety"] + (1 + (n_ - 1) * abs(sd["incy"]) if n_ else 0), 1), A.typecode)
            base.symv(A, x, y, uplo=case["uplo"], **dict(kw, **sd))
            out = y
        elif f == "gemv":
            x, y = (B if isinstance(B, matrix) else matrix(B)), (C if isinstance(C, matrix) else matrix(C))
            base.gemv(A, x, y, trans=case["transA"], **dict(kw, **case["ints"]))
            out = y
        elif f == "syrk":
            base.syrk(A, C, uplo=case["uplo"], trans=case["transA"], **kw)
            out = C
        elif f == "symv":
            x, y = (B if isinstance(B, matrix) else matrix(B)), (C if isinstance(C, matrix) else matrix(C))
            ints = {k: v for k, v in case["ints"].items() if k != "m"}
            base.symv(A, x, y, uplo=case["uplo"], **dict(kw, **ints))
            out = y
        else:
            base.axpy(A, C, **kw)
            out = C
        err = None
    except EXC as e:
        err, out = e, None
    for M_ in (A, B, C) + ((out,) if out is not None else ()):
        if isinstance(M_, spmatrix):
            c16.check_ccs(M_, "base.%s %r" % (f, {k: case[k] for k in ("transA", "transB", "uplo", "partial", "ints")}))
    if stats is not None:
        stats.evaluated(case, err is None, ["base:" + f, "outcome:" + ("refused:" + type(err).__name__ if err else "done")])


# ------------------------------------------------------------------ index_asan

XT = [2 ** 31 - 1, 2 ** 31, -2 ** 31, -2 ** 31 - 1, 2 ** 32, 2 ** 63 - 1, -2 ** 63, 2 ** 63, 2 ** 62, -2 ** 62]


@st.composite
def xint(draw, n):
    return draw(st.one_of(st.integers(-n - 2, n + 1), st.integers(-n - 2, n + 1), st.sampled_from(XT)))


@st.composite
def xkey(draw, n):
    kind = draw(st.sampled_from(["int", "slice", "list", "imat", "tuple"]))
    if kind == "int":
        return ["int", draw(xint(n))]
    if kind == "slice":
        e = lambda: draw(st.one_of(st.none(), xint(n)))
        return ["slice", e(), e(), draw(st.one_of(st.none(), st.sampled_from([1, -1, 2, 2 ** 31, -2 ** 31, 2 ** 63 - 1, -2 ** 63 + 1])))]
    vals = [draw(xint(n)) for _ in range(draw(st.integers(0, 4)))]
    if kind == "imat":
        vals = [v for v in vals if -2 ** 63 <= v < 2 ** 63]
    return [kind, vals]


def mkkey(k):
    if k[0] == "int":
        return k[1]
    if k[0] == "slice":
        return slice(k[1], k[2], k[3])
    if k[0] == "imat":
        return matrix(k[1], (len(k[1]), 1), "i")
    if k[0] == "tuple":
        return tuple(k[1])
    return list(k[1])


@st.composite
def index_strategy(draw):
    sp = draw(st.booleans())
    A = draw(c16.sp_st()) if sp else draw(c16.dn_st())
    op = draw(st.sampled_from(["get1", "get2", "set1", "set2", "ctor", "size", "size", "fromlist", "setself", "frombuf", "frombuf"]))
    n1 = A["m"] * A["n"]
    if op == "frombuf":
        # constructors reading foreign memory through the buffer protocol (exactly sized numpy / array / bytes sources,
        # every format, stride pattern and target typecode): generator and value oracle of C20, run under ASan here
        from checks import c20
        return dict(op=op, A=dict(tc="d", m=0, n=0, v=[]), imp=draw(c20.import_st()))
    if op == "setself":
        # an integer matrix used as its own index set: A[A] = v, A[A, j] = v
        L = draw(st.integers(1, 6))
        vals = [draw(st.integers(-L, L - 1)) for _ in range(L)]
        return dict(op=op, A=dict(tc="i", m=L, n=1, v=[v / 2.0 for v in vals]), vals=vals,
                    rhs=draw(st.sampled_from(["num", "dense"])), two=draw(st.booleans()))
    c = dict(op=op, A=A, key=draw(xkey(n1 if op.endswith("1") else A["m"])), key2=draw(xkey(A["n"])),
             rhs=draw(st.sampled_from(["num", "dense", "sparse", "dense1", "huge"])),
             I=[draw(xint(4)) for _ in range(draw(st.integers(0, 4)))], J=[draw(xint(4)) for _ in range(draw(st.integers(0, 4)))],
             size=[draw(st.sampled_from([0, 1, 2, 3, -1, 2 ** 62, 2 ** 45, -2 ** 31, 2 ** 63 - 1, 65536, 46341, 2 ** 31 - 1, 2 ** 16 * 3])),
                   draw(st.sampled_from([0, 1, 2, 3, -1, 2 ** 62, 2 ** 45, 65536, 46341, 2 ** 31 - 1, 2 ** 16]))])
    return c


def _probe():
    """a few calls into the interpreter: a pending exception left behind by the extension surfaces here"""
    len([])
    isinstance(1, int)
    abs(-1)
    return int("7")


def index_oracle(case, stats=None):
    A = c16.mk_sp(case["A"]) if "I" in case["A"] else c16.mk_dn(case["A"])
    op = case["op"]
    if op == "frombuf":
        from checks import c20
        c20.import_oracle(case["imp"], None)
        if stats is not None:
            stats.evaluated(case, True, ["index:frombuf:" + case["imp"]["src"]])
        return
    res = None
    try:
        if op == "get1":
            res = A[mkkey(case["key"])]
        elif op == "get2":
            res = A[mkkey(case["key"]), mkkey(case["key2"])]
        elif op in ("set1", "set2"):
            k = mkkey(case["key"]) if op == "set1" else (mkkey(case["key"]), mkkey(case["key2"]))
            if case["rhs"] == "num":
                rhs = 1.5
            elif case["rhs"] == "huge":
                rhs = 10 ** 400
            else:
                try:
                    cur = A[k]
                    shape = cur.size if hasattr(cur, "size") else (1, 1)
                except EXC:
                    shape = (1, 1)
                if shape[0] * shape[1] > 10 ** 6:
                    shape = (1, 1)
                rhs = matrix(2.5, shape, A.typecode)
                if case["rhs"] == "sparse":
                    rhs = sparse(rhs)
                elif case["rhs"] == "dense1":
                    rhs = matrix(2.5, (shape[0] * shape[1], 1), A.typecode)
            A[k] = rhs
            res = A
        elif op == "ctor":
            I, J = case["I"], case["J"]
            nn = min(len(I), len(J))
            sz = case["size"]
            if sz[1] > 10 ** 6 and sz[1] < 2 ** 40:
                sz = [sz[0], 3]
            inferable = all(not (10 ** 6 < v < 2 ** 40) for v in I[:nn] + J[:nn])     # an inferred size of 10^6..2^40 columns would really be allocated
            res = spmatrix([1.0] * nn, I[:nn], J[:nn], tuple(sz)) if (sz[0] != 3 or not inferable) else spmatrix([1.0] * nn, I[:nn], J[:nn])
        elif op == "size":
            nel = A.size[0] * A.size[1]
            A.size = tuple(case["size"])
            res = A
            if A.size[0] * A.size[1] != nel:
                raise Violation("A.size = %r was accepted for a matrix with %d elements (size now %r, len %d)" % (
                    tuple(case["size"]), nel, A.size, len(A)))
        elif op == "setself":
            vals = case["vals"]
            L = len(vals)
            rhsv = [10 + k for k in range(L)]
            rhs = 7 if case["rhs"] == "num" else matrix(rhsv, (L, 1), "i")
            want = list(vals)
            for k, i in enumerate(vals):
                want[i % L] = 7 if case["rhs"] == "num" else rhsv[k]       # the indices are the values A had before
            if case["two"]:
                A[A, 0] = rhs
            else:
                A[A] = rhs
            res = A
            if list(A) != want:
                raise Violation("A[A] = v with A = %r gave %r; indexing with the values A had before the assignment gives %r" % (vals, list(A), want))
        else:
            sz = case["size"]
            res = matrix(list(A)[:4], tuple(sz)) if sz[0] * sz[1] != 0 or True else None
        err = None
    except EXC as e:
        err = e
    try:
        _probe()
    except BaseException as e:      # noqa
        raise Violation("%s with extreme indices returned normally but left an exception pending: %s: %s" % (op, type(e).__name__, e))
    for M_ in (A, res):
        if isinstance(M_, spmatrix):
            c16.check_ccs(M_, "%s with extreme indices" % op)
        if isinstance(M_, (matrix, spmatrix)) and (M_.size[0] < 0 or M_.size[1] < 0):
            raise Violation("%s produced a matrix of size %r" % (op, M_.size))
        if isinstance(M_, matrix) and len(M_) != M_.size[0] * M_.size[1]:
            raise Violation("%s left a dense matrix of size %r with %d elements" % (op, M_.size, len(M_)))
    if isinstance(err, SystemError):
        raise Violation("%s with extreme indices: the extension returned inconsistently (SystemError: %s)" % (op, err))
    if stats is not None:
        stats.evaluated(case, err is None, ["index:" + op + (":sparse" if "I" in case["A"] else ":dense"),
                                            "outcome:" + ("refused:" + type(err).__name__ if err else "done")])


# ------------------------------------------------------------------ driver

def search(ctx, stats):
    part = ctx.part
    if part == "blas_box":
        v = run_given(blas_box_strategy(), lambda c: blas_box_oracle(c, stats), ctx.seed, ctx.n(2500, 100000), stats, journal=ctx.journal)
    elif part == "lapack_box":
        v = run_given(lapack_box_strategy(), lambda c: lapack_box_oracle(c, stats), ctx.seed, ctx.n(12000, 400000), stats, journal=ctx.journal)
    elif part == "base_asan":
        v = run_given(base_strategy(), lambda c: base_oracle(c, stats), ctx.seed, ctx.n(12000, 600000), stats, journal=ctx.journal)
    elif part == "index_asan":
        v = run_given(index_strategy(), lambda c: index_oracle(c, stats), ctx.seed, ctx.n(16000, 1000000), stats, journal=ctx.journal)
    else:
        from checks import c08
        v = run_given(c08.case_strategy(), lambda c: c08.oracle(c, stats), ctx.seed, ctx.n(4000, 200000), stats, journal=ctx.journal)
    return [v] if v else []


def replay(case, part=None):
    try:
        if part == "blas_box" and "single" in case:
            run_blas_variant(case["single"], None, force=True)
        elif part == "blas_box":
            blas_box_oracle(case)
        elif part == "lapack_box":
            lapack_box_oracle(case)
        elif part == "base_asan":
            base_oracle(case)
        elif part == "index_asan":
            index_oracle(case)
        else:
            from checks import c08
            c08.oracle(case)
    except Violation as v:
        return v.msg
    return None
