"""C06 — the answer does not depend on problem presentation or solver path."""
import numpy as np
from hypothesis import strategies as st
from vlib.harness import Violation, run_given
from vlib import ref_cone as rc, gen_cone as gc, judge, runlp, ref_kkt
from checks import c03

from cvxopt import matrix, spmatrix, sparse, solvers, misc

TRANSFORMS_LP = ["sparse", "kkt", "wrapper", "operator", "start", "recone_q", "recone_s", "permrows", "permvars",
                 "scale", "glpk", "dsdp"]
TRANSFORMS_QP = ["sparse", "kkt", "wrapper", "operator", "start", "recone_q", "recone_s", "permrows", "permvars", "scale"]
KNOWN = {"chol2-limit-singular": False, "coneqp-gap-cycling": False}


@st.composite
def case_strategy(draw):
    qp = draw(st.integers(0, 3)) == 0
    kinds = draw(st.sampled_from(["l", "l", "lq", "ls", "lqs", "lqs", "q", "s"]))
    kind = "feas" if qp else draw(st.sampled_from(["feas", "feas", "feas", "pinf", "dinf"]))
    prob = draw(gc.cone_case(kind=kind, kinds=kinds, qp=qp))
    dims = prob["dims"]
    N = rc.cdim(dims)
    t = draw(st.sampled_from(TRANSFORMS_QP if qp else TRANSFORMS_LP))
    par = dict(name=t,
               kkt=draw(st.sampled_from(["ldl", "ldl2", "chol", "qr", "chol2"])),
               perm_seed=draw(st.integers(0, 10 ** 6)),
               alpha=draw(st.sampled_from([0.5, 2.0, 4.0, 0.25])),
               row=draw(st.integers(0, 50)),
               spG=draw(st.booleans()), spA=draw(st.booleans()),
               start=draw(st.sampled_from(["primal", "dual", "both"])),
               start_data=dict(su=[draw(gc.dy(-4, 4)) for _ in range(N)], zu=[draw(gc.dy(-4, 4)) for _ in range(N)],
                               xs=draw(st.integers(-3, 3)), ys=draw(st.integers(-3, 3)),
                               delta=draw(st.sampled_from([0.5, 1.0, 4.0]))))
    return dict(qp=qp, prob=prob, t=par)


# ------------------------------------------------------------------ running one presentation

def run_lp(mat, entry="conelp", kkt=None, spG=False, spA=False, start="none", start_data=None, solver=None,
           operator=False):
    dims = mat["dims"]
    cfg = dict(entry=entry, kkt=kkt, solver=solver, start=start, opts={}, spG=spG, spA=spA, start_data=start_data)
    if operator:
        Gn, An = mat["Gs"], mat["A"]

        def npv(x):
            return np.array(list(x), dtype=float)

        def put(y, v):
            if len(v):
                y[:] = matrix(v.tolist(), (len(v), 1), "d")

        def fG(x, y, trans="N", alpha=1.0, beta=0.0):
            if trans == "N":
                put(y, alpha * (Gn @ npv(x)) + beta * rc.symvec(npv(y), dims))
            else:
                put(y, alpha * (Gn.T @ rc.symvec(npv(x), dims)) + beta * npv(y))

        def fA(x, y, trans="N", alpha=1.0, beta=0.0):
            if trans == "N":
                put(y, alpha * (An @ npv(x)) + beta * npv(y))
            else:
                put(y, alpha * (An.T @ npv(x)) + beta * npv(y))
        kk = ref_kkt.make_kktsolver(mat["Gs"], mat["A"], dims)
        return solvers.conelp(gc.cvx_dense(mat["c"]), fG, gc.cvx_dense(mat["h"]), dims, fA, gc.cvx_dense(mat["b"]),
                              kktsolver=kk, options={"show_progress": False}), "conelp"
    return runlp.call(cfg, mat), entry


def run_qp(mat, entry="coneqp", kkt=None, sp=False, spA=False, init=None, init_data=None, operator=False):
    cfg = dict(entry=entry, kkt=("np" if operator else kkt), form=("operator" if operator else "matrix"), opts={},
               init=init, init_data=init_data, spP=sp, spG=sp, spA=spA, Pjunk=0.0, omitG=False)
    return c03.call_qp(cfg, mat), "coneqp"


def summarize(mat, sol, entry, qp):
    """-> dict(status, lo, hi, x, accurate) with the weak-duality bracket of the optimal value."""
    dims = mat["dims"]
    status = sol["status"]
    out = dict(status=status, x=None, lo=None, hi=None, accurate=False)
    if status not in ("optimal", "unknown"):
        return out
    c = mat["q"] if qp else mat["c"]
    D = judge.Data(c, mat["G"], mat["h"], mat["A"], mat["b"], dims, P=mat["P"] if qp else None, q=c if qp else None)
    v, _ = judge.unpack_solution(sol, dims, entry)
    if any(v[k] is None for k in ("x", "s", "y", "z")):
        return out
    x, s, y, z = v["x"], v["s"], v["y"], v["z"]
    if not all(np.all(np.isfinite(t)) for t in (x, s, y, z)):
        return out
    r = judge.recompute_qp(D, x, s, y, z) if qp else judge.recompute_lp(D, x, s, y, z)
    ss, zs = rc.symvec(s, dims), rc.symvec(z, dims)
    rz = D.G @ x + ss - D.h
    ry = D.A @ x - D.b
    rx = (D.P @ x + D.q if qp else D.c) + D.G.T @ zs + D.A.T @ y
    n_ = judge.nrm
    e = abs(r["gap"]) + 10.0 * (n_(rx) * (2 * n_(x) + 1) + (2 * n_(zs) + 1) * n_(rz) + (2 * n_(y) + 1) * n_(ry)) + \
        1e-9 * (r["pcost_scale"] + r["dcost_scale"] + 1.0)
    out.update(x=x, s=s, z=z, lo=r["dcost"] - e, hi=r["pcost"] + e, pcost=r["pcost"], e=e,
               accurate=bool(r["pres"] <= 1e-5 and r["dres"] <= 1e-5 and r["gap"] <= 1e-5 * max(1.0, abs(r["pcost"]))))
    return out


# ------------------------------------------------------------------ transformations of the data

def permuted(mat, seed, qp):
    rng = np.random.RandomState(seed)
    n = mat["n"]
    perm = rng.permutation(n)
    m2 = dict(mat)
    for k in ("G", "Gs", "A"):
        m2[k] = mat[k][:, perm]
    m2["c"] = mat["c"][perm]
    if qp:
        m2["P"] = mat["P"][np.ix_(perm, perm)]
        m2["q"] = mat["q"][perm]
    return m2, perm


def rowperm(mat, seed):
    rng = np.random.RandomState(seed)
    l = mat["dims"]["l"]
    perm = np.concatenate([rng.permutation(l), np.arange(l, mat["G"].shape[0])]).astype(int)
    m2 = dict(mat)
    for k in ("G", "Gs"):
        m2[k] = mat[k][perm, :]
    for k in ("h", "hs"):
        m2[k] = mat[k][perm]
    return m2


def recone(mat, row, kind):
    """Move scalar inequality `row` of the 'l' block into a 1-dimensional 'q' cone or an order-1 's' cone."""
    dims = mat["dims"]
    l = dims["l"]
    i = row % l
    N = mat["G"].shape[0]
    keep = [k for k in range(l) if k != i]
    if kind == "q":
        order = keep + [i] + list(range(l, N))          # new 1-dim 'q' cone placed first among the q cones
        nd = {"l": l - 1, "q": [1] + list(dims["q"]), "s": list(dims["s"])}
    else:
        order = keep + list(range(l, N)) + [i]          # new order-1 's' cone placed last
        nd = {"l": l - 1, "q": list(dims["q"]), "s": list(dims["s"]) + [1]}
    m2 = dict(mat)
    for k in ("G", "Gs"):
        m2[k] = mat[k][order, :]
    for k in ("h", "hs"):
        m2[k] = mat[k][order]
    m2["dims"] = nd
    return m2


def wrapper_for(dims):
    if not dims["q"] and not dims["s"]:
        return "lp"
    if not dims["s"]:
        return "socp"
    if not dims["q"]:
        return "sdp"
    return None


def oracle(case, stats=None):
    qp, prob, t = case["qp"], case["prob"], case["t"]
    mat = c03.qp_data(prob) if qp else gc.materialize(prob)
    dims = mat["dims"]
    kind = prob["kind"]
    name = t["name"]
    labels = ["qp" if qp else "lp", "kind:" + kind, "transform:" + name]
    ok = mat["qp_rank_ok"] if qp else (mat["rank_ok"] and mat["cond_GA"] <= 1e3)
    if qp and ok:
        sv = np.linalg.svd(np.vstack([mat["P"], mat["Gs"], mat["A"]]), compute_uv=False)
        ok = sv[0] / sv[mat["n"] - 1] <= 1e3
    if not ok:
        if stats is not None:
            stats.evaluated(case, False, labels + ["skipped:not_well_posed"])
        return
    pure_l = not dims["q"] and not dims["s"]

    def skip(why):
        if stats is not None:
            stats.evaluated(case, False, labels + ["skipped:" + why])

    # ---- base presentation
    try:
        if qp:
            sol0, e0 = run_qp(mat)
        else:
            sol0, e0 = run_lp(mat)
    except Exception as e:
        # an exception on a well-posed instance is judged by C05; here it matters only if another presentation of the
        # same instance (operator form with a user KKT solver, which bypasses the built-in pre-checks) is answered
        try:
            solx, ex = run_qp(mat, operator=True) if qp else run_lp(mat, operator=True)
        except Exception:
            return skip("base_raised_" + type(e).__name__)
        if solx["status"] == "optimal" and kind == "feas":
            raise Violation("the matrix presentation with the default KKT solver raised %s: %s while the operator "
                            "presentation of the same well-posed problem returned 'optimal'" % (type(e).__name__, e))
        return skip("base_raised_" + type(e).__name__)
    A0 = summarize(mat, sol0, e0, qp)
    # ---- second presentation
    scale = 1.0
    perm = None
    mat2 = mat
    try:
        if name == "sparse":
            # mixed storage (sparse G with dense A and vice versa) is a presentation of its own
            sol1, e1 = run_qp(mat, sp=True, spA=t["spA"]) if qp else run_lp(mat, spG=True, spA=t["spA"])
        elif name == "kkt":
            k = t["kkt"]
            if (k == "qr" and qp) or (k == "chol2" and not pure_l):
                return skip("kkt_not_accepted")
            sol1, e1 = run_qp(mat, kkt=k) if qp else run_lp(mat, kkt=k, spG=t["spG"])
        elif name == "wrapper":
            if qp:
                if not pure_l:
                    return skip("no_wrapper")
                sol1, e1 = run_qp(mat, entry="qp", sp=t["spG"])
            else:
                w = wrapper_for(dims)
                if w is None:
                    return skip("no_wrapper")
                sol1, e1 = run_lp(mat, entry=w, spG=t["spG"], spA=t["spA"])
                e1 = w
        elif name == "operator":
            sol1, e1 = run_qp(mat, operator=True) if qp else run_lp(mat, operator=True)
        elif name == "start":
            if qp:
                sol1, e1 = run_qp(mat, init={"primal": ["x", "s"], "dual": ["y", "z"], "both": ["x", "s", "y", "z"]}[t["start"]],
                                  init_data=t["start_data"])
            else:
                w = wrapper_for(dims) if t["spA"] else None     # half of the time through the wrapper's own packing
                sol1, e1 = run_lp(mat, entry=w or "conelp", start=t["start"], start_data=t["start_data"])
                e1 = w or "conelp"
        elif name in ("recone_q", "recone_s"):
            if dims["l"] == 0:
                return skip("no_l_row")
            mat2 = recone(mat, t["row"], name[-1])
            sol1, e1 = run_qp(mat2) if qp else run_lp(mat2)
        elif name == "permrows":
            if dims["l"] < 2:
                return skip("no_l_rows")
            mat2 = rowperm(mat, t["perm_seed"])
            sol1, e1 = run_qp(mat2) if qp else run_lp(mat2)
        elif name == "permvars":
            if mat["n"] < 2:
                return skip("one_variable")
            mat2, perm = permuted(mat, t["perm_seed"], qp)
            sol1, e1 = run_qp(mat2) if qp else run_lp(mat2)
        elif name == "scale":
            scale = t["alpha"]
            mat2 = dict(mat)
            mat2["c"] = mat["c"] * scale
            if qp:
                mat2["P"] = mat["P"] * scale
                mat2["q"] = mat["q"] * scale
            sol1, e1 = run_qp(mat2) if qp else run_lp(mat2)
        elif name == "glpk":
            if not pure_l:
                return skip("glpk_needs_lp")
            sol1, e1 = run_lp(mat, entry="lp", solver="glpk")
            e1 = "lp"
        elif name == "dsdp":
            if dims["q"] or mat["p"] or kind != "feas":
                return skip("dsdp_not_applicable")       # kind != feas: known finding of C01 (dsdp-not-strictly-feasible)
            sol1, e1 = run_lp(mat, entry="sdp", solver="dsdp")
            e1 = "sdp"
        else:
            raise AssertionError(name)
    except Exception as e:
        raise Violation("presentation %r raised %s: %s while the base presentation returned %r" % (
            name, type(e).__name__, e, A0["status"]))
    A1 = summarize(mat2, sol1, e1, qp)
    s0, s1 = A0["status"], A1["status"]
    labels += ["status0:" + s0, "status1:" + s1]
    # 'unknown' whose final iterate is already accurate (1e-5 level, the escape clause of C05) counts as optimal
    eff0 = "optimal" if (s0 == "unknown" and A0["accurate"]) else s0
    eff1 = "optimal" if (s1 == "unknown" and A1["accurate"]) else s1
    if name in ("glpk", "dsdp") and s1 == "unknown":
        return skip("backend_unknown")
    if eff0 != eff1 and KNOWN.get("chol2-limit-singular") and "unknown" in (eff0, eff1):
        from vlib import known
        ref, bad = (A0, name) if eff1 == "unknown" else (A1, "base")
        kk = t["kkt"] if (name == "kkt" and bad != "base") else None
        if ref["status"] == "optimal" and known.chol2_limit_singular(mat, qp, ref["x"], ref.get("s"), ref.get("z"), kk):
            if stats is not None:
                stats.exclude("chol2-limit-singular")
            return
    if eff0 != eff1 and qp and KNOWN.get("coneqp-gap-cycling") and "unknown" in (eff0, eff1):
        # known finding: coneqp cycles (feasible iterates, oscillating gap) until the iteration limit
        from vlib import known
        badsol = sol1 if eff1 == "unknown" else sol0
        if known.coneqp_gap_cycling(badsol):
            if stats is not None:
                stats.exclude("coneqp-gap-cycling")
            return
    if eff0 != eff1:
        raise Violation("status %r (base: conelp/coneqp, dense, default KKT solver) vs %r under presentation %r "
                        "(dims=%r, kind=%s)" % (s0, s1, name, dims, kind))
    if eff0 == "optimal":
        lo0, hi0, lo1, hi1 = A0["lo"], A0["hi"], A1["lo"] / scale, A1["hi"] / scale
        if name in ("glpk", "dsdp"):
            w = (1e-6 if name == "glpk" else 1e-3) * (1 + abs(hi0))
            lo1, hi1 = lo1 - w, hi1 + w
        if lo0 > hi1 + 1e-9 * (1 + abs(hi1)) or lo1 > hi0 + 1e-9 * (1 + abs(hi0)):
            raise Violation("optimal values differ under presentation %r: base [%.9g, %.9g], other [%.9g, %.9g]" % (
                name, lo0, hi0, lo1, hi1))
        if qp and mat["rankP"] == mat["n"] and name not in ("recone_q", "recone_s"):
            mu = float(np.linalg.eigvalsh(mat["P"])[0])
            x0, x1 = A0["x"], A1["x"]
            if perm is not None:
                xx = np.empty_like(x1)
                xx[perm] = x1
                x1 = xx
            bound = np.sqrt(2.0 * (A0["e"] + A1["e"] / scale) / mu) + 1e-6 * (1 + judge.nrm(x0))
            if judge.nrm(x0 - x1) > bound:
                raise Violation("unique minimiser differs under presentation %r: |x0-x1| = %.3e > bound %.3e" % (
                    name, judge.nrm(x0 - x1), bound))
            labels.append("x_compared")
    if stats is not None:
        stats.evaluated(case, eff0 == "optimal", labels)


# ------------------------------------------------------------------ unsupported kktsolver names

NAMES = ["ldl", "ldl2", "qr", "chol", "chol2", "foo", "", "LDL", "cholmod"]
ACCEPT = {"conelp": {"ldl", "ldl2", "qr", "chol", "chol2"}, "lp": {"ldl", "ldl2", "qr", "chol", "chol2"},
          "socp": {"ldl", "ldl2", "qr", "chol", "chol2"}, "sdp": {"ldl", "ldl2", "qr", "chol", "chol2"},
          "coneqp": {"ldl", "ldl2", "chol", "chol2"}, "qp": {"ldl", "ldl2", "chol", "chol2"},
          "cpl": {"ldl", "ldl2", "chol", "chol2"}, "cp": {"ldl", "ldl2", "chol", "chol2"},
          "gp": {"ldl", "ldl2", "chol", "chol2"}}


@st.composite
def names_case(draw):
    return dict(entry=draw(st.sampled_from(sorted(ACCEPT))), name=draw(st.sampled_from(NAMES)),
                withq=draw(st.booleans()), n=draw(st.integers(1, 3)),
                data=[draw(gc.dy(-4, 4)) for _ in range(12)], sp=draw(st.booleans()))


class Counters:
    def __init__(self):
        self.n = 0
        self.saved = {}

    def __enter__(self):
        C = self
        for k in ("kkt_ldl", "kkt_ldl2", "kkt_chol", "kkt_chol2", "kkt_qr"):
            orig = getattr(misc, k)
            self.saved[k] = orig

            def wrap(*a, _orig=orig, **kw):
                fac = _orig(*a, **kw)

                def factor(*fa, **fk):
                    C.n += 1
                    return fac(*fa, **fk)
                return factor
            setattr(misc, k, wrap)
        return self

    def __exit__(self, *a):
        for k, v in self.saved.items():
            setattr(misc, k, v)


def names_oracle(case, stats=None):
    entry, name, n = case["entry"], case["name"], case["n"]
    d = case["data"]
    opts = {"show_progress": False}
    calls = {"F": 0, "GA": 0}
    # a tiny strictly feasible problem: box -2 <= x <= 2 (+ a 'q' ball when withq), linear/quadratic objective
    c = matrix([d[i] + 0.5 for i in range(n)], (n, 1), "d")
    I = np.eye(n)
    Gl = np.vstack([I, -I])
    hl = np.full(2 * n, 2.0)
    withq = case["withq"] and entry in ("conelp", "socp", "coneqp", "cpl", "cp")
    mk = (lambda a: sparse(gc.cvx_dense(a))) if case["sp"] else gc.cvx_dense
    Gq = np.vstack([np.zeros((1, n)), -I])
    hq = np.concatenate([[3.0], np.zeros(n)])
    dims = {"l": 2 * n, "q": [n + 1] if withq else [], "s": []}
    G = np.vstack([Gl, Gq]) if withq else Gl
    h = np.concatenate([hl, hq]) if withq else hl
    P = gc.cvx_dense(np.eye(n))

    def F(x=None, z=None):
        if x is None:
            return 0, matrix(0.0, (n, 1))
        calls["F"] += 1
        f = 0.5 * sum(xi * xi for xi in x) + sum(ci * xi for ci, xi in zip(c, x))
        Df = (x + c).T
        if z is None:
            return f, Df
        return f, Df, z[0] * matrix(np.eye(n).ravel().tolist(), (n, n))

    def Fl(x=None, z=None):        # for cpl: one nonlinear constraint  |x|^2 - 9 <= 0
        if x is None:
            return 1, matrix(0.0, (n, 1))
        calls["F"] += 1
        f = matrix([sum(xi * xi for xi in x) - 9.0])
        Df = 2.0 * x.T
        if z is None:
            return f, Df
        return f, Df, 2.0 * z[0] * matrix(np.eye(n).ravel().tolist(), (n, n))
    with Counters() as C:
        try:
            if entry == "conelp":
                solvers.conelp(c, mk(G), gc.cvx_dense(h), dims, kktsolver=name, options=opts)
            elif entry == "lp":
                solvers.lp(c, mk(Gl), gc.cvx_dense(hl), kktsolver=name, options=opts)
            elif entry == "socp":
                solvers.socp(c, mk(Gl), gc.cvx_dense(hl), [mk(Gq)] if withq else [], [gc.cvx_dense(hq)] if withq else [],
                             kktsolver=name, options=opts)
            elif entry == "sdp":
                solvers.sdp(c, mk(Gl), gc.cvx_dense(hl), kktsolver=name, options=opts)
            elif entry == "coneqp":
                solvers.coneqp(P, c, mk(G), gc.cvx_dense(h), dims, kktsolver=name, options=opts)
            elif entry == "qp":
                solvers.qp(P, c, mk(Gl), gc.cvx_dense(hl), kktsolver=name, options=opts)
            elif entry == "cpl":
                solvers.cpl(c, Fl, mk(G), gc.cvx_dense(h), dims, kktsolver=name, options=opts)
            elif entry == "cp":
                solvers.cp(F, mk(G), gc.cvx_dense(h), dims, kktsolver=name, options=opts)
            elif entry == "gp":
                K = [2, 1]
                Fm = gc.cvx_dense(np.vstack([np.full(n, 1.0), np.full(n, -1.0), np.full(n, 0.5)]))
                g = matrix([0.0, 0.5, -1.0])
                solvers.gp(K, Fm, g, mk(Gl), gc.cvx_dense(hl), kktsolver=name, options=opts)
            outcome = "solved"
        except ValueError as e:
            outcome = "ValueError"
            msg = str(e)
        except Exception as e:
            outcome = type(e).__name__
            msg = str(e)
    pure_l = not dims["q"] or entry in ("lp", "sdp", "qp", "gp")
    accepted = name in ACCEPT[entry] and not (name == "chol2" and withq)
    if accepted:
        if outcome != "solved":
            raise Violation("%s(kktsolver=%r) raised %s: %s although the name is supported" % (entry, name, outcome, msg))
    else:
        if outcome != "ValueError":
            raise Violation("%s(kktsolver=%r) -> %s%s; an unsupported name must be rejected with ValueError" % (
                entry, name, outcome, "" if outcome == "solved" else ": " + msg))
        if C.n or calls["F"]:
            raise Violation("%s(kktsolver=%r) raised ValueError only after solving started (%d KKT factorizations, "
                            "%d evaluations of F(x))" % (entry, name, C.n, calls["F"]))
    if stats is not None:
        stats.evaluated(case, not accepted, ["names", "entry:" + entry, "accepted" if accepted else "rejected"])


# ------------------------------------------------------------------ part "patterns": storage formats on sparse patterns

@st.composite
def pattern_case(draw):
    """pure-'l' LP/QP with 8..12 variables and a genuinely sparse G (3 entries per row + bound rows), dense-ish A:
    large enough for fill-reducing orderings and supernodes to matter"""
    n = draw(st.integers(8, 12))
    mrows = draw(st.integers(4, 8))
    p = draw(st.integers(0, 2))
    rows = [[(draw(st.integers(0, n - 1)), draw(gc.dy(-4, 4))) for _ in range(3)] for _ in range(mrows)]
    return dict(n=n, mrows=mrows, p=p, rows=rows, A=[[draw(gc.dy(-4, 4)) for _ in range(n)] for _ in range(p)],
                x0=[draw(st.integers(1, 3)) / 2.0 for _ in range(n)], s0=[draw(st.integers(1, 4)) / 4.0 for _ in range(mrows + n)],
                z0=[draw(st.integers(1, 4)) / 4.0 for _ in range(mrows + n)], y0=[draw(gc.dy(-2, 2)) for _ in range(p)],
                qp=draw(st.booleans()), pd=[draw(st.integers(0, 4)) / 4.0 for _ in range(n)])


def pattern_oracle(case, stats=None):
    n, mrows, p = case["n"], case["mrows"], case["p"]
    m = mrows + n
    G = np.zeros((m, n))
    for i, r in enumerate(case["rows"]):
        for j, v in r:
            G[i, j] += v
    for j in range(n):
        G[mrows + j, j] = -1.0
    A = np.array(case["A"], dtype=float).reshape((p, n))
    if p and np.linalg.matrix_rank(A) < p:
        if stats is not None:
            stats.evaluated(case, False, ["patterns:skipped_rank"])
        return
    x0, s0, z0, y0 = (np.array(case[k], dtype=float) for k in ("x0", "s0", "z0", "y0"))
    h, b = G @ x0 + s0, A @ x0
    P = np.diag(case["pd"]) if case["qp"] else None
    c = -(G.T @ z0) - A.T @ y0 - (P @ x0 if P is not None else 0.0)
    dn, sp_ = gc.cvx_dense, lambda a: sparse(gc.cvx_dense(a))
    cm, hm, bm = dn(c), dn(h), dn(b)

    def solve(fG, fA, fP, kkt):
        kw = dict(kktsolver=kkt, options={"show_progress": False})
        if P is not None:
            return solvers.qp(fP(P), cm, fG(G), hm, fA(A) if p else None, bm if p else None, **kw)
        return solvers.lp(cm, fG(G), hm, fA(A) if p else None, bm if p else None, **kw)
    try:
        ref = solve(dn, dn, dn, "ldl")
    except Exception as e:       # noqa  (judged by C05)
        if stats is not None:
            stats.evaluated(case, False, ["patterns:base_raised"])
        return
    if ref["status"] != "optimal":
        if stats is not None:
            stats.evaluated(case, False, ["patterns:base_" + ref["status"]])
        return
    pref = ref["primal objective"]
    for gname, fG in (("dense", dn), ("sparse", sp_)):
      for pname, fP in ((("dense", dn), ("sparse", sp_)) if case["qp"] else (("-", dn),)):
        for aname, fA in (("dense", dn), ("sparse", sp_)):
            for kkt in (None, "chol2", "ldl"):
                what = "%s with G %s, A %s%s, kktsolver=%r (n=%d, %d rows, p=%d)" % ("qp" if case["qp"] else "lp", gname, aname,
                                                                             ", P " + pname if case["qp"] else "", kkt, n, m, p)
                try:
                    sol = solve(fG, fA, fP, kkt)
                except Exception as e:   # noqa
                    raise Violation("%s raised %s: %s although the all-dense 'ldl' presentation is optimal" % (what, type(e).__name__, e))
                if sol["status"] == "unknown" and all(isinstance(sol.get(k_), float) for k_ in ("primal infeasibility", "dual infeasibility", "gap")) \
                        and max(sol["primal infeasibility"], sol["dual infeasibility"]) <= 1e-5 and sol["gap"] <= 1e-5 * max(1.0, abs(pref)) \
                        and abs(sol["primal objective"] - pref) <= 1e-5 * max(1.0, abs(pref)):
                    continue        # stopped early with an iterate that is already accurate (the escape clause of C05)
                if sol["status"] != "optimal":
                    raise Violation("%s: status %r, the all-dense 'ldl' presentation of the same problem is optimal (%.6g)" % (what, sol["status"], pref))
                if abs(sol["primal objective"] - pref) > 1e-5 * max(1.0, abs(pref)):
                    raise Violation("%s: optimal value %.9g, all-dense 'ldl' presentation %.9g" % (what, sol["primal objective"], pref))
    if stats is not None:
        stats.evaluated(case, True, ["patterns:" + ("qp" if case["qp"] else "lp"), "patterns:p=%d" % p])


def search(ctx, stats):
    for k in KNOWN:
        KNOWN[k] = ctx.known_active(k)
    if ctx.part == "patterns":
        v = run_given(pattern_case(), lambda c: pattern_oracle(c, stats), ctx.seed, ctx.n(1500, 30000), stats)
        return [v] if v else []
    if ctx.part == "names":
        v = run_given(names_case(), lambda c: names_oracle(c, stats), ctx.seed, ctx.n(3000, 30000), stats)
    else:
        v = run_given(case_strategy(), lambda c: oracle(c, stats), ctx.seed, ctx.n(8000, 160000), stats)
    return [v] if v else []


def replay(case, part):
    try:
        (names_oracle if part == "names" else (pattern_oracle if part == "patterns" else oracle))(case)
    except Violation as v:
        return v.msg
    return None
