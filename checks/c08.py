"""C08 — cone-algebra kernels match their mathematical definition in both implementations
(compiled misc_solvers and the in-tree pure-Python fallbacks of cvxopt/misc.py)."""
import ast, os, sys, types, math
import numpy as np
from hypothesis import strategies as st
from vlib.harness import Violation, run_given
from vlib import ref_cone as rc, gen_cone as gc, ref_kkt

import cvxopt
from cvxopt import matrix, spmatrix, sparse
from cvxopt import misc as misc_c

ROUND = 1e-9
SENT = 12345.678
KERNELS = ["scale", "scale2", "pack", "pack2", "unpack", "sdot", "snrm2", "sgemv", "trisc", "triusc", "symm",
           "sprod", "ssqr", "sinv", "max_step", "jdot", "jnrm2"]


def load_python_misc():
    """cvxopt/misc.py of the tree under test with the module-level switch `use_C` forced to False."""
    path = os.path.join(os.path.dirname(cvxopt.__file__), "misc.py")
    tree = ast.parse(open(path).read(), path)
    found = False
    for node in tree.body:
        if isinstance(node, ast.Assign) and len(node.targets) == 1 and isinstance(node.targets[0], ast.Name) \
                and node.targets[0].id == "use_C":
            node.value = ast.Constant(False)
            found = True
    if not found:
        return None
    ast.fix_missing_locations(tree)
    mod = types.ModuleType("cvxopt_misc_purepython")
    mod.__file__ = path
    exec(compile(tree, path, "exec"), mod.__dict__)
    return mod


misc_py = load_python_misc()


class Guard:
    """Proxy that turns an exception raised by a kernel (called within its contract) into a Violation;
    exceptions of the harness itself stay harness errors."""
    def __init__(self, name, mod):
        self._n, self._m = name, mod

    def __getattr__(self, attr):
        fn = getattr(self._m, attr)

        def guarded(*a, **k):
            try:
                return fn(*a, **k)
            except Exception as e:
                raise Violation("%s [%s] raised %s: %s on in-contract arguments" % (attr, self._n, type(e).__name__, e))
        return guarded


IMPLS = [("C", Guard("C", misc_c))] + ([("py", Guard("py", misc_py))] if misc_py is not None else [])

dyv = st.integers(-8, 8).map(lambda k: k / 2.0)


@st.composite
def case_strategy(draw):
    kernel = draw(st.sampled_from(KERNELS))
    dims = draw(gc.dims_strategy(max_l=3, max_q=2, max_qsize=4, max_s=2, max_sorder=3, nonempty=False))
    mnl_ok = kernel in ("scale", "scale2", "pack", "pack2", "unpack", "sdot", "snrm2", "sprod", "ssqr", "sinv", "max_step")
    mnl = draw(st.integers(0, 2)) if mnl_ok else 0
    N = rc.cdim(dims, mnl)
    Nd = mnl + dims["l"] + sum(dims["q"]) + sum(dims["s"])
    case = dict(kernel=kernel, dims=dims, mnl=mnl,
                x=[draw(dyv) for _ in range(N)], y=[draw(dyv) for _ in range(N)],
                delta=draw(st.sampled_from([0.25, 0.5, 1.0, 2.0])))
    if kernel in ("scale", "pack2"):
        case["ncols"] = draw(st.integers(1, 3))
        case["xcols"] = [[draw(dyv) for _ in range(N)] for _ in range(case["ncols"] - 1)]
    if kernel == "scale":
        case["trans"] = draw(st.sampled_from("NT"))
        case["inverse"] = draw(st.sampled_from("NI"))
        case["W"] = dict(d=[draw(st.integers(1, 8)) / 2.0 for _ in range(dims["l"])],
                         dnl=[draw(st.integers(1, 8)) / 2.0 for _ in range(mnl)],
                         beta=[draw(st.integers(1, 8)) / 2.0 for _ in dims["q"]],
                         vu=[[draw(dyv) / 2.0 for _ in range(m - 1)] for m in dims["q"]],
                         r=[[draw(dyv) for _ in range(m * m)] for m in dims["s"]])
    if kernel in ("scale2", "sinv", "ssqr", "sprod"):
        case["lam"] = [draw(dyv) for _ in range(Nd)]
        case["inverse"] = draw(st.sampled_from("NI"))
        case["diag"] = draw(st.sampled_from("ND"))
    if kernel in ("pack", "unpack", "trisc", "triusc", "symm", "sgemv", "jdot", "jnrm2"):
        case["offx"] = draw(st.integers(0, 3))
        case["offy"] = draw(st.integers(0, 3))
    if kernel == "sgemv":
        n = draw(st.integers(0, 3))
        case["n"] = n
        case["A"] = [[draw(dyv) for _ in range(n)] for _ in range(N)]
        case["xn"] = [draw(dyv) for _ in range(n)]
        case["trans"] = draw(st.sampled_from("NT"))
        case["alpha"] = draw(st.sampled_from([1.0, 1.0, -1.0, 0.5, 0.0, 2.0]))
        case["beta"] = draw(st.sampled_from([0.0, 0.0, 1.0, -1.0, 0.5]))
        case["sp"] = draw(st.booleans())
    if kernel == "symm":
        case["m"] = draw(st.integers(0, 4))
        case["xs"] = [draw(dyv) for _ in range(case["m"] ** 2)]
    if kernel in ("jdot", "jnrm2"):
        case["m"] = draw(st.integers(1, 5))
        case["u"] = [draw(dyv) for _ in range(case["m"])]
        case["w"] = [draw(dyv) for _ in range(case["m"])]
        case["explicit_n"] = draw(st.booleans())
    if kernel == "max_step":
        case["sigma"] = draw(st.booleans())
        case["sigma_none"] = draw(st.booleans())       # sigma = None given explicitly (the documented default value)
        case["huge"] = draw(st.integers(0, 7)) == 0      # the same vector scaled by 2**130 (beyond the single precision range)
    if kernel == "scale":
        case["int_beta"] = draw(st.booleans())         # "beta: list of positive numbers": integral values as Python ints
    return case


def mk(v):
    v = np.asarray(v, dtype=float)
    if v.ndim == 1:
        return matrix(v.tolist(), (len(v), 1), "d")
    return matrix(v.reshape(-1, order="F").tolist(), v.shape, "d")


def arr(m):
    a = np.array(list(m), dtype=float)
    return a.reshape(m.size, order="F") if m.size[1] != 1 else a


def build_W(case):
    dims, mnl = case["dims"], case["mnl"]
    w = case["W"]
    Wn = dict(d=np.array(w["d"], dtype=float), beta=list(w["beta"]), v=[], r=[], rti=[])
    Wn["di"] = 1.0 / Wn["d"] if len(w["d"]) else np.zeros(0)
    if mnl:
        Wn["dnl"] = np.array(w["dnl"], dtype=float)
        Wn["dnli"] = 1.0 / Wn["dnl"]
    for u in w["vu"]:
        u = np.array(u, dtype=float)
        Wn["v"].append(np.concatenate([[math.sqrt(1.0 + float(u @ u))], u]))
    for rr, m in zip(w["r"], dims["s"]):
        R = np.array(rr, dtype=float).reshape((m, m), order="F") + 3.0 * np.eye(m)
        if m and np.linalg.cond(R) > 1e3:
            R = 2.0 * np.eye(m) + np.tril(R, -1) * 0.25
        Wn["r"].append(R)
        Wn["rti"].append(np.linalg.inv(R).T if m else R.copy())
    Wc = {"d": mk(Wn["d"]), "di": mk(Wn["di"]),
          "beta": [int(b) if (case.get("int_beta") and float(b).is_integer()) else b for b in Wn["beta"]], "v": [mk(v) for v in Wn["v"]],
          "r": [mk(r) for r in Wn["r"]], "rti": [mk(r) for r in Wn["rti"]]}
    if mnl:
        Wc["dnl"], Wc["dnli"] = mk(Wn["dnl"]), mk(Wn["dnli"])
    nrm = max([1.0] + ([float(np.max(Wn["d"]))] if len(Wn["d"]) else []) + [b * (2 * float(v @ v) + 1) for b, v in zip(Wn["beta"], Wn["v"])]
              + [float(np.linalg.norm(r, 2)) ** 2 for r in Wn["r"] if r.size] + ([float(np.max(Wn["dnl"]))] if mnl else []))
    nrmi = max([1.0] + ([float(np.max(Wn["di"]))] if len(Wn["d"]) else []) + [(2 * float(v @ v) + 1) / b for b, v in zip(Wn["beta"], Wn["v"])]
               + [float(np.linalg.norm(r, 2)) ** 2 for r in Wn["rti"] if r.size] + ([float(np.max(Wn["dnli"]))] if mnl else []))
    return Wn, Wc, nrm, nrmi


def lam_interior(case):
    """lambda in the compact storage of the solvers: nl/l positive, q interior, s: positive diagonal."""
    dims, mnl = case["dims"], case["mnl"]
    u = np.array(case["lam"], dtype=float)
    out = u.copy()
    ind = 0
    n = mnl + dims["l"]
    out[:n] = np.abs(u[:n]) + case["delta"]
    ind = n
    for m in dims["q"]:
        out[ind] = float(np.sum(np.abs(u[ind + 1:ind + m]))) + case["delta"]
        ind += m
    out[ind:] = np.abs(u[ind:]) + case["delta"]
    return out


def lower(v, dims, mnl):
    return v[rc.lower_mask(dims, mnl)]


def cmp(name, got, want, scale, what):
    got, want = np.asarray(got, dtype=float), np.asarray(want, dtype=float)
    if got.shape != want.shape:
        raise Violation("%s [%s]: shape %r, expected %r" % (what, name, got.shape, want.shape))
    if got.size == 0:
        return
    if not np.all(np.isfinite(got)):
        raise Violation("%s [%s]: non-finite result" % (what, name))
    err = float(np.max(np.abs(got - want)))
    if err > ROUND * scale + 1e-12:
        raise Violation("%s [%s]: max deviation %.3e from the definition (scale %.2e); got %r want %r" % (
            what, name, err, scale, got.tolist()[:12], want.tolist()[:12]))


def run_kernel(case, name, M):
    """Executes the kernel of implementation M on fresh copies; returns dict of observations and checks
    implementation-independent facts (definition, sentinels).  Returns values used for the cross-check."""
    k = case["kernel"]
    dims, mnl = case["dims"], case["mnl"]
    N = rc.cdim(dims, mnl)
    x0 = np.array(case["x"], dtype=float)
    if k == "max_step" and case.get("huge"):
        x0 = x0 * 2.0 ** 130
    y0 = np.array(case["y"], dtype=float)
    lm = rc.lower_mask(dims, mnl)
    what = "%s(dims=%r, mnl=%d)" % (k, dims, mnl)
    if k == "scale":
        Wn, Wc, nrm, nrmi = build_W(case)
        cols = [x0] + [np.array(c, dtype=float) for c in case["xcols"]]
        X = np.column_stack(cols) if N else np.zeros((0, len(cols)))
        Xs = np.vstack([X, np.full((2, X.shape[1]), SENT)])     # two sentinel rows? no: scale uses x.size[0]
        xm = mk(X) if N else matrix(0.0, (0, len(cols)))
        M.scale(xm, Wc, trans=case["trans"], inverse=case["inverse"])
        got = arr(xm) if xm.size[1] != 1 else arr(xm).reshape((-1, 1))
        got = got.reshape((N, len(cols)))
        wn = nrm if case["inverse"] == "N" else nrmi
        for j, c in enumerate(cols):
            want = rc.apply_W(Wn, c, dims, trans=case["trans"], inverse=case["inverse"], mnl=mnl)
            cmp(name, got[:, j][lm], want[lm], wn * (1 + judge_n(c)), what + " trans=%s inverse=%s column %d" % (
                case["trans"], case["inverse"], j))
        # laws: inverse undoes; adjoint
        xm2 = matrix(xm)
        M.scale(xm2, Wc, trans=case["trans"], inverse=("I" if case["inverse"] == "N" else "N"))
        back = arr(xm2).reshape((N, len(cols)))
        for j, c in enumerate(cols):
            cmp(name, back[:, j][lm], rc.symvec(c, dims, mnl)[lm], nrm * nrmi * (1 + judge_n(c)), what + " scale then inverse scale")
        if N:
            a, b = mk(x0), mk(y0)
            M.scale(a, Wc, trans="N", inverse=case["inverse"])
            M.scale(b, Wc, trans="T", inverse=case["inverse"])
            l1 = rc.sdot(arr(a), y0, dims, mnl)
            l2 = rc.sdot(x0, arr(b), dims, mnl)
            if abs(l1 - l2) > ROUND * wn * (1 + judge_n(x0)) * (1 + judge_n(y0)) + 1e-12:
                raise Violation("%s [%s]: <Wx,y> = %r but <x,W'y> = %r" % (what, name, l1, l2))
        return got[lm, :] if N else got
    if k == "scale2":
        lam = lam_interior(case)
        pad = np.concatenate([x0, [SENT, SENT]])
        xm = mk(pad)
        M.scale2(mk(lam), xm, dims, mnl, inverse=case["inverse"])
        got = arr(xm)
        sentinel(name, what, got[N:], 2)
        want = ref_scale2(lam, x0, dims, mnl, case["inverse"])
        sc = (1 + judge_n(x0)) * (1 + float(np.max(lam)) if len(lam) else 1.0) * max(1.0, 1.0 / case["delta"]) * 8
        cmp(name, got[:N], want, sc, what + " inverse=%s" % case["inverse"])
        # law: applying inverse='I' twice is the quadratic representation of lambda on the q blocks
        if case["inverse"] == "I":
            xm2 = mk(got[:N])
            M.scale2(mk(lam), xm2, dims, mnl, inverse="I")
            g2 = arr(xm2)
            ind = mnl + dims["l"]
            for m in dims["q"]:
                l = lam[ind:ind + m]
                J = np.ones(m)
                J[1:] = -1
                u = x0[ind:ind + m]
                wantq = 2 * l * float(l @ u) - float(l @ (J * l)) * J * u
                cmp(name, g2[ind:ind + m], wantq, sc * sc, what + " H(lambda^{-1/2})^2 = quadratic representation")
                ind += m
        return got[:N]
    if k in ("pack", "unpack"):
        Epk, Eun = ref_kkt.pack_matrix(dims, mnl)
        Np = Epk.shape[0]
        ox, oy = case["offx"], case["offy"]
        if k == "pack":
            src = np.concatenate([np.full(ox, SENT), x0, [SENT]])
            dst = np.full(oy + Np + 2, SENT)
            xm, ym = mk(src), mk(dst)
            M.pack(xm, ym, dims, mnl, ox, oy)
            if not np.array_equal(arr(xm), src):
                raise Violation("%s [%s]: source vector modified" % (what, name))
            got = arr(ym)
            sentinel(name, what, np.concatenate([got[:oy], got[oy + Np:]]), oy + 2)
            want = Epk @ rc.symvec(x0, dims, mnl)
            cmp(name, got[oy:oy + Np], want, 1 + judge_n(x0), what + " offsets (%d,%d)" % (ox, oy))
            n1, n2 = float(np.linalg.norm(got[oy:oy + Np])), rc.snrm2(x0, dims, mnl)
            if abs(n1 - n2) > ROUND * (1 + n2):
                raise Violation("%s [%s]: ||pack(x)||_2 = %r but snrm2(x) = %r" % (what, name, n1, n2))
            return got[oy:oy + Np]
        xp = (Epk @ rc.symvec(x0, dims, mnl)) if N else np.zeros(0)
        src = np.concatenate([np.full(ox, SENT), xp, [SENT]])
        dst = np.full(oy + N + 2, SENT)
        xm, ym = mk(src), mk(dst)
        M.unpack(xm, ym, dims, mnl, ox, oy)
        if not np.array_equal(arr(xm), src):
            raise Violation("%s [%s]: source vector modified" % (what, name))
        got = arr(ym)
        sentinel(name, what, np.concatenate([got[:oy], got[oy + N:]]), oy + 2)
        cmp(name, got[oy:oy + N][lm], rc.symvec(x0, dims, mnl)[lm], 1 + judge_n(x0), what + " (unpack o pack = id on lower triangles)")
        return got[oy:oy + N][lm]
    if k == "pack2":
        Epk, Eun = ref_kkt.pack_matrix(dims, mnl)
        Np = Epk.shape[0]
        cols = [x0] + [np.array(c, dtype=float) for c in case["xcols"]]
        X = np.column_stack(cols) if N else np.zeros((0, len(cols)))
        xm = mk(X) if N else matrix(0.0, (0, len(cols)))
        M.pack2(xm, dims, mnl)
        got = arr(xm).reshape((N, len(cols)))
        for j, c in enumerate(cols):
            cmp(name, got[:Np, j], Epk @ rc.symvec(c, dims, mnl), 1 + judge_n(c), what + " column %d" % j)
        return got[:Np, :]
    if k in ("sdot", "snrm2"):
        xm, ym = mk(x0), mk(y0)
        if k == "sdot":
            got = M.sdot(xm, ym, dims, mnl)
            want = rc.sdot(x0, y0, dims, mnl)
            sc = (1 + judge_n(x0)) * (1 + judge_n(y0))
        else:
            got = M.snrm2(xm, dims, mnl)
            want = rc.snrm2(x0, dims, mnl)
            sc = 1 + judge_n(x0)
        if not (np.array_equal(arr(xm), x0) and np.array_equal(arr(ym), y0)):
            raise Violation("%s [%s]: argument modified" % (what, name))
        cmp(name, [got], [want], sc, what)
        return np.array([got])
    if k == "sgemv":
        n = case["n"]
        A = np.array(case["A"], dtype=float).reshape((N, n))
        As = rc.symcols(A, dims) if N else A
        Am = sparse(mk(A)) if (case["sp"] and A.size) else (mk(A) if A.size else matrix(0.0, (N, n)))
        ox, oy = case["offx"], case["offy"]
        al, be = case["alpha"], case["beta"]
        if case["trans"] == "N":
            xv = np.array(case["xn"], dtype=float)
            src = np.concatenate([np.full(ox, SENT), xv, [SENT]])
            dst = np.concatenate([np.full(oy, SENT), y0, [SENT, SENT]])
            want = al * (A @ xv) + be * y0
            xm, ym = mk(src), mk(dst)
            M.sgemv(Am, xm, ym, dims, trans="N", alpha=al, beta=be, offsetx=ox, offsety=oy)
            got = arr(ym)
            if not np.array_equal(arr(xm), src):
                raise Violation("%s [%s]: x modified (trans='N')" % (what, name))
            sentinel(name, what, np.concatenate([got[:oy], got[oy + N:]]), oy + 2)
            # y := alpha*A*x + beta*y is a plain matrix-vector product: every entry of the addressed y
            cmp(name, got[oy:oy + N], want, (1 + float(np.linalg.norm(A))) * (1 + judge_n(xv)) + judge_n(y0),
                what + " trans='N' alpha=%r beta=%r sparse=%r" % (al, be, case["sp"]))
            return got[oy:oy + N]
        src = np.concatenate([np.full(ox, SENT), x0, [SENT]])
        yv = np.array(case["xn"], dtype=float)
        dst = np.concatenate([np.full(oy, SENT), yv, [SENT, SENT]])
        want = al * (As.T @ rc.symvec(x0, dims)) + be * yv
        xm, ym = mk(src), mk(dst)
        M.sgemv(Am, xm, ym, dims, trans="T", alpha=al, beta=be, offsetx=ox, offsety=oy)
        got = arr(ym)
        gx = arr(xm)
        sentinel(name, what, np.concatenate([gx[:ox], gx[ox + N:]]), ox + 1)
        if not np.array_equal(gx[ox:ox + N][lm], x0[lm]):
            raise Violation("%s [%s]: lower-triangular/linear part of x not restored after trans='T'" % (what, name))
        sentinel(name, what, np.concatenate([got[:oy], got[oy + n:]]), oy + 2)
        cmp(name, got[oy:oy + n], want, (1 + float(np.linalg.norm(As))) * (1 + judge_n(x0)) * 2 + judge_n(yv),
            what + " trans='T' alpha=%r beta=%r sparse=%r (S inner product)" % (al, be, case["sp"]))
        return got[oy:oy + n]
    if k in ("trisc", "triusc"):
        off = case["offx"]
        src = np.concatenate([np.full(off, SENT), x0, [SENT]])
        xm = mk(src)
        getattr(M, k)(xm, dims, off)
        got = arr(xm)
        sentinel(name, what, np.concatenate([got[:off], got[off + N:]]), off + 1)
        want = x0.copy()
        for kind, ind, m in rc.blocks(dims):
            if kind == "s":
                for j in range(m):
                    for i in range(m):
                        if i > j:
                            want[ind + i + j * m] *= (2.0 if k == "trisc" else 0.5)
                        elif i < j and k == "trisc":
                            want[ind + i + j * m] = 0.0
        cmp(name, got[off:off + N], want, 1 + judge_n(x0), what + " offset=%d" % off)
        return got[off:off + N]
    if k == "symm":
        m, off = case["m"], case["offx"]
        xs = np.array(case["xs"], dtype=float)
        src = np.concatenate([np.full(off, SENT), xs, [SENT]])
        xm = mk(src)
        M.symm(xm, m, off)
        got = arr(xm)
        sentinel(name, what, np.concatenate([got[:off], got[off + m * m:]]), off + 1)
        want = rc.smat(xs, 0, m).reshape(-1, order="F") if m else xs
        cmp(name, got[off:off + m * m], want, 1.0, "symm(n=%d, offset=%d)" % (m, off))
        return got[off:off + m * m]
    if k == "sprod":
        if case["diag"] == "N":
            xm, ym = mk(np.concatenate([x0, [SENT]])), mk(y0)
            M.sprod(xm, ym, dims, mnl, diag="N")
            got = arr(xm)
            sentinel(name, what, got[N:], 1)
            want = ref_sprod(x0, y0, dims, mnl)
            cmp(name, got[:N][lm], want[lm], (1 + judge_n(x0)) * (1 + judge_n(y0)), what + " diag='N'")
            if not np.array_equal(arr(ym)[lm], y0[lm]):
                raise Violation("%s [%s]: lower part of y modified" % (what, name))
            return got[:N][lm]
        lam = lam_interior(case)
        xm = mk(np.concatenate([x0, [SENT]]))
        lamm = mk(lam)
        M.sprod(xm, lamm, dims, mnl, diag="D")
        got = arr(xm)
        sentinel(name, what, got[N:], 1)
        want = ref_sprod(x0, rc.lmbda_full(lam, dims, mnl), dims, mnl)
        cmp(name, got[:N][lm], want[lm], (1 + judge_n(x0)) * (1 + judge_n(lam)), what + " diag='D'")
        if not np.array_equal(arr(lamm), lam):
            raise Violation("%s [%s]: y modified" % (what, name))
        # law: sinv undoes sprod(diag='D')
        xm2 = mk(got[:N])
        M.sinv(xm2, lamm, dims, mnl)
        cmp(name, arr(xm2)[lm], x0[lm], (1 + judge_n(x0)) * (1 + judge_n(lam)) ** 2 * max(1, 1 / case["delta"]) ** 2 * 8,
            what + " sinv(sprod(x,lambda),lambda) = x")
        return got[:N][lm]
    if k == "sinv":
        lam = lam_interior(case)
        xm = mk(np.concatenate([x0, [SENT]]))
        lamm = mk(lam)
        M.sinv(xm, lamm, dims, mnl)
        got = arr(xm)
        sentinel(name, what, got[N:], 1)
        if not np.array_equal(arr(lamm), lam):
            raise Violation("%s [%s]: y modified" % (what, name))
        # definition: result u satisfies lambda o u = x
        chk = ref_sprod(got[:N], rc.lmbda_full(lam, dims, mnl), dims, mnl)
        sc = (1 + judge_n(x0)) * (1 + judge_n(lam)) ** 2 * max(1, 1 / case["delta"]) ** 2 * 8
        cmp(name, chk[lm], rc.symvec(x0, dims, mnl)[lm], sc, what + " (lambda o sinv(x,lambda) = x)")
        return got[:N][lm]
    if k == "ssqr":
        lam = np.array(case["lam"], dtype=float)
        Nd = len(lam)
        xm = mk(np.concatenate([np.full(Nd, SENT), [SENT]]))
        lamm = mk(lam)
        M.ssqr(xm, lamm, dims, mnl)
        got = arr(xm)
        sentinel(name, what, got[Nd:], 1)
        want = lam * lam
        ind = mnl + dims["l"]
        for m in dims["q"]:
            l = lam[ind:ind + m]
            want[ind] = float(l @ l)
            want[ind + 1:ind + m] = 2 * l[0] * l[1:]
            ind += m
        cmp(name, got[:Nd], want, (1 + judge_n(lam)) ** 2, what)
        return got[:Nd]
    if k == "max_step":
        if not case["sigma"]:
            xm = mk(x0)
            got = M.max_step(xm, dims, mnl, None) if case.get("sigma_none") else M.max_step(xm, dims, mnl)
            if not np.array_equal(arr(xm), x0):
                raise Violation("%s [%s]: x modified without sigma" % (what, name))
            ms = rc.min_slack(x0, dims, mnl)
            want = -ms if np.isfinite(ms) else 0.0
            cmp(name, [got], [want], 1 + judge_n(x0), what + " = -min_slack")
            return np.array([got])
        ns = sum(dims["s"])
        sig = mk(np.full(ns + 1, SENT))
        xm = mk(np.concatenate([x0, [SENT]]))
        got = M.max_step(xm, dims, mnl, sig)
        gx, gs = arr(xm), arr(sig)
        sentinel(name, what, gx[N:], 1)
        sentinel(name, what, gs[ns:], 1)
        ms = rc.min_slack(x0, dims, mnl)
        cmp(name, [got], [-ms if np.isfinite(ms) else 0.0], 1 + judge_n(x0), what + " with sigma")
        ind2 = 0
        nlq = mnl + dims["l"] + sum(dims["q"])
        if not np.array_equal(gx[:nlq], x0[:nlq]):
            raise Violation("%s [%s]: non-'s' part of x modified" % (what, name))
        for kind, ind, m in rc.blocks(dims, mnl):
            if kind != "s":
                continue
            S = rc.smat(x0, ind, m)
            Q = gx[ind:ind + m * m].reshape((m, m), order="F")
            w = gs[ind2:ind2 + m]
            ind2 += m
            if m == 0:
                continue
            if np.any(np.diff(w) < -ROUND * (1 + judge_n(x0))):
                raise Violation("%s [%s]: eigenvalues in sigma not ascending: %r" % (what, name, w.tolist()))
            cmp(name, (Q.T @ Q).ravel(), np.eye(m).ravel(), 4.0, what + " eigenvectors orthonormal")
            cmp(name, (Q @ np.diag(w) @ Q.T).ravel(), S.ravel(), 4 * (1 + judge_n(x0)), what + " Q diag(sigma) Q' = block")
        return np.concatenate([[got], gs[:ns]])
    if k in ("jdot", "jnrm2"):
        m, ox, oy = case["m"], case["offx"], case["offy"]
        u, w = np.array(case["u"], dtype=float), np.array(case["w"], dtype=float)
        J = np.ones(m)
        J[1:] = -1
        if k == "jdot":
            if case["explicit_n"]:
                got = M.jdot(mk(np.concatenate([np.full(ox, SENT), u, [SENT]])), mk(np.concatenate([np.full(oy, SENT), w, [SENT]])),
                             n=m, offsetx=ox, offsety=oy)
            else:
                got = M.jdot(mk(u), mk(w))
            cmp(name, [got], [float(u @ (J * w))], (1 + judge_n(u)) * (1 + judge_n(w)), "jdot(n=%d)" % m)
            return np.array([got])
        u = u.copy()
        u[0] = float(np.sum(np.abs(u[1:]))) + case["delta"]
        if case["explicit_n"]:
            got = M.jnrm2(mk(np.concatenate([np.full(ox, SENT), u, [SENT]])), n=m, offset=ox)
        else:
            got = M.jnrm2(mk(u))
        cmp(name, [got], [math.sqrt(float(u @ (J * u)))], 1 + judge_n(u), "jnrm2(n=%d)" % m)
        return np.array([got])
    raise AssertionError(k)


def judge_n(v):
    return float(np.linalg.norm(v)) if np.size(v) else 0.0


def sentinel(name, what, vals, n):
    if len(vals) and not np.all(vals == SENT):
        raise Violation("%s [%s]: wrote outside the addressed blocks (sentinel positions changed: %r)" % (
            what, name, vals.tolist()))


def ref_sprod(x, y, dims, mnl):
    """x o y from the definition: componentwise; (x'y, x0*y1 + y0*x1); (XY+YX)/2."""
    x, y = rc.symvec(x, dims, mnl), rc.symvec(y, dims, mnl)
    out = x * y
    for kind, ind, m in rc.blocks(dims, mnl):
        if kind == "q":
            a, b = x[ind:ind + m], y[ind:ind + m]
            out[ind] = float(a @ b)
            out[ind + 1:ind + m] = a[0] * b[1:] + b[0] * a[1:]
        elif kind == "s" and m:
            X = x[ind:ind + m * m].reshape((m, m), order="F")
            Y = y[ind:ind + m * m].reshape((m, m), order="F")
            out[ind:ind + m * m] = (0.5 * (X @ Y + Y @ X)).reshape(-1, order="F")
    return out


def ref_scale2(lam, x, dims, mnl, inverse):
    out = np.array(x, dtype=float).copy()
    n = mnl + dims["l"]
    out[:n] = x[:n] / lam[:n] if inverse == "N" else x[:n] * lam[:n]
    ind = n
    for m in dims["q"]:
        lk = lam[ind:ind + m]
        J = np.ones(m)
        J[1:] = -1
        a = math.sqrt(float(lk @ (J * lk)))
        l = lk / a
        u = x[ind:ind + m]
        if inverse == "N":
            lx = float(l @ (J * u))
            out[ind] = lx / a
            out[ind + 1:ind + m] = (u[1:] - (u[0] + lx) / (l[0] + 1) * l[1:]) / a
        else:
            lx = float(l @ u)
            out[ind] = a * lx
            out[ind + 1:ind + m] = a * (u[1:] + (u[0] + lx) / (l[0] + 1) * l[1:])
        ind += m
    ind2 = ind
    for m in dims["s"]:
        l = lam[ind2:ind2 + m]
        X = x[ind:ind + m * m].reshape((m, m), order="F")
        d = np.sqrt(l)
        R = X / np.outer(d, d) if inverse == "N" else X * np.outer(d, d)
        out[ind:ind + m * m] = R.reshape(-1, order="F")
        ind += m * m
        ind2 += m
    return out


def nontrivial(case):
    dims = case["dims"]
    big = any(m >= 2 for m in dims["q"]) or any(m >= 2 for m in dims["s"])
    flag = case.get("trans") == "T" or case.get("inverse") == "I" or case.get("diag") == "D" or \
        case.get("offx", 0) or case.get("offy", 0) or case.get("ncols", 1) > 1 or case["mnl"] or case.get("sigma")
    if case["kernel"] in ("symm", "jdot", "jnrm2"):
        return case.get("m", 0) >= 2
    return bool(big and flag)


def oracle(case, stats=None):
    res = []
    for name, M in IMPLS:
        res.append((name, run_kernel(case, name, M)))
    if len(res) == 2:
        a, b = np.asarray(res[0][1], dtype=float), np.asarray(res[1][1], dtype=float)
        if a.shape != b.shape or (a.size and float(np.max(np.abs(a - b))) > 1e-8 * (1 + float(np.max(np.abs(a))))):
            raise Violation("%s: compiled and pure-Python implementations disagree: %r vs %r" % (
                case["kernel"], a.ravel().tolist()[:10], b.ravel().tolist()[:10]))
    if stats is not None:
        stats.evaluated(case, nontrivial(case), ["kernel:" + case["kernel"]] + (["python_fallback_missing"] if misc_py is None else []))


def search(ctx, stats):
    n = ctx.n(60000, 1500000)
    v = run_given(case_strategy(), lambda c: oracle(c, stats), ctx.seed, n, stats, journal=ctx.journal)
    return [v] if v else []


def replay(case, part):
    try:
        oracle(case)
    except Violation as v:
        return v.msg
    return None
