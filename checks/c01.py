"""C01 — 'optimal' from conelp/lp/socp/sdp is an independently checkable certificate."""
import numpy as np
from hypothesis import strategies as st
from vlib.harness import Violation, run_given
from vlib import ref_cone as rc, gen_cone as gc, judge, runlp

GLPK_LOOSE = dict(feas=1e-6, slack=1e-6, gap=1e-6, relgap=1e-6, field_scale=1.0)
DSDP_LOOSE = dict(feas=1e-4, slack=1e-5, gap=1e-3, relgap=1e-4, field_scale=1.0)


@st.composite
def case_strategy(draw):
    kind = draw(st.sampled_from(["feas"] * 6 + ["rand"] * 2 + ["pinf", "dinf"]))
    kinds = draw(st.sampled_from(["l", "l", "lq", "lq", "ls", "ls", "lqs", "lqs", "q", "s"]))
    prob = draw(gc.cone_case(kind=kind, kinds=kinds))
    cfg = draw(runlp.config(prob["dims"], prob["p"]))
    return dict(prob=prob, cfg=cfg)


def allowed_exception(e, cfg, mat):
    """Documented / explicit refusals that are not verdicts of this property."""
    msg = str(e)
    if isinstance(e, ValueError) and "Rank(A) < p or Rank([G; A]) < n" in msg:
        return "rank"
    if isinstance(e, ArithmeticError):
        return None
    return None


def compare_wrapper(cfg, mat, sol, stats_labels):
    """Item 5: wrapper pieces are exactly the blocks of conelp's s, z on the documented assembly."""
    msgs = []
    entry = cfg["entry"]
    dims = mat["dims"]
    ref = runlp.call(cfg, mat, entry_override="conelp")
    if ref["status"] != sol["status"]:
        return ["wrapper status %r but conelp on the assembled problem gives %r" % (sol["status"], ref["status"])]
    for k in judge.FIELDS[1:]:
        a, b = sol.get(k), ref.get(k)
        if k in ("x", "y"):
            a = None if a is None else list(a)
            b = None if b is None else list(b)
        if a != b:
            msgs.append("wrapper field %r = %r, conelp gives %r" % (k, a, b))
    if entry == "lp":
        for k in ("s", "z"):
            a, b = sol.get(k), ref.get(k)
            if (a is None) != (b is None) or (a is not None and list(a) != list(b)):
                msgs.append("lp %r differs from conelp's" % k)
        return msgs
    v, shape_msgs = judge.unpack_solution(sol, dims, entry)
    msgs += shape_msgs
    for k in ("s", "z"):
        b = ref.get(k)
        if (v[k] is None) != (b is None):
            msgs.append("%s blocks None-ness differs from conelp" % k)
        elif b is not None and not np.array_equal(v[k], np.array(list(b))):
            msgs.append("%s blocks are not exactly the blocks of conelp's %s" % (k, k))
    return msgs


def oracle(case, stats=None):
    prob, cfg = case["prob"], case["cfg"]
    mat = gc.materialize(prob)
    dims = mat["dims"]
    labels = ["kind:" + prob["kind"], "entry:" + cfg["entry"], "kkt:" + str(cfg["kkt"]),
              "start:" + cfg["start"], "solver:" + str(cfg["solver"])]
    if not mat["rank_ok"]:
        # documented requirement Rank(A)=p, Rank([G;A])=n not met: outside the domain
        if stats is not None:
            stats.evaluated(case, False, labels + ["skipped:rank_deficient"])
        return
    if cfg["solver"] == "dsdp" and prob["kind"] != "feas" and KNOWN["dsdp-not-strictly-feasible"] and stats is not None:
        # known finding: DSDP answers DSDP_PDFEASIBLE on unbounded / infeasible problems
        stats.exclude("dsdp-not-strictly-feasible")
        return
    try:
        sol = runlp.call(cfg, mat)
    except Exception as e:
        # exceptions are judged by C05/C10 (containment); C01 is about results that claim 'optimal'
        if stats is not None:
            stats.evaluated(case, False, labels + ["raised:" + type(e).__name__])
        return
    status = sol["status"]
    labels.append("status:" + status)
    nontrivial = False
    if status == "optimal":
        D = judge.Data(mat["c"], mat["G"], mat["h"], mat["A"], mat["b"], dims)
        v, msgs = judge.unpack_solution(sol, dims, cfg["entry"])
        feastol, abstol, reltol, maxiters = runlp.effective_tols(cfg)
        loose = None
        if cfg["solver"] == "glpk":
            loose = GLPK_LOOSE
        elif cfg["solver"] == "dsdp":
            loose = DSDP_LOOSE
        if not msgs:
            msgs += judge.judge_optimal_lp(D, sol, v, feastol, abstol, reltol, maxiters, loose)
        if not msgs and cfg["entry"] != "conelp" and cfg["solver"] is None:
            msgs += compare_wrapper(cfg, mat, sol, labels)
        if msgs:
            raise Violation("status 'optimal' (%s, kkt=%s, solver=%s) but: %s" % (
                cfg["entry"], cfg["kkt"], cfg["solver"], "; ".join(msgs[:4])),
                detail=dict(fields={k: sol.get(k) for k in judge.FIELDS[3:]}))
        it = sol.get("iterations", 1)
        big = any(m >= 2 for m in dims["q"]) or any(m >= 2 for m in dims["s"])
        nontrivial = it >= 1 and (big or cfg["kkt"] is not None or cfg["start"] != "none"
                                  or cfg["spG"] or cfg["solver"] is not None)
        if it == 0:
            labels.append("optimal_at_iteration_0")
    if stats is not None:
        stats.evaluated(case, nontrivial, labels)


KNOWN = {"dsdp-not-strictly-feasible": False}


def search(ctx, stats):
    for k in KNOWN:
        KNOWN[k] = ctx.known_active(k)
    n = ctx.n(24000, 400000)
    v = run_given(case_strategy(), lambda c: oracle(c, stats), ctx.seed, n, stats)
    return [v] if v else []


def replay(case, part):
    try:
        oracle(case)
    except Violation as v:
        return v.msg
    return None
