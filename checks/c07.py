"""C07 — KKT solvers and Nesterov-Todd scalings satisfy their linear-algebra contract."""
import math
import numpy as np
from hypothesis import strategies as st
from vlib.harness import Violation, run_given
from vlib import ref_cone as rc, gen_cone as gc, ref_kkt, judge, runlp

from cvxopt import matrix, spmatrix, sparse, misc, solvers

ROUND = 1e-9
dyv = st.integers(-6, 6).map(lambda k: k / 2.0)


def mk(v):
    v = np.asarray(v, dtype=float)
    if v.ndim == 1:
        return matrix(v.tolist(), (len(v), 1), "d")
    return matrix(v.reshape(-1, order="F").tolist(), v.shape, "d")


def arr(m):
    a = np.array(list(m), dtype=float)
    return a.reshape(m.size, order="F") if m.size[1] != 1 else a


# ----------------------------------------------------------------- generators

@st.composite
def W_prims(draw, dims, mnl):
    return dict(d=[draw(st.integers(1, 8)) / 2.0 for _ in range(dims["l"])],
                dnl=[draw(st.integers(1, 8)) / 2.0 for _ in range(mnl)],
                beta=[draw(st.integers(1, 8)) / 2.0 for _ in dims["q"]],
                vu=[[draw(dyv) / 2.0 for _ in range(m - 1)] for m in dims["q"]],
                r=[[draw(dyv) for _ in range(m * m)] for m in dims["s"]])


def build_W(w, dims, mnl):
    Wn = dict(d=np.array(w["d"], dtype=float), beta=list(w["beta"]), v=[], r=[], rti=[])
    Wn["di"] = 1.0 / Wn["d"] if len(w["d"]) else np.zeros(0)
    if mnl:
        Wn["dnl"] = np.array(w["dnl"], dtype=float)
        Wn["dnli"] = 1.0 / Wn["dnl"]
    for u in w["vu"]:
        u = np.array(u, dtype=float)
        Wn["v"].append(np.concatenate([[math.sqrt(1.0 + float(u @ u))], u]))
    for rr, m in zip(w["r"], dims["s"]):
        R = np.array(rr, dtype=float).reshape((m, m), order="F") + 3.0 * np.eye(m)
        if m and np.linalg.cond(R) > 1e2:
            R = 2.0 * np.eye(m) + np.tril(R, -1) * 0.25
        Wn["r"].append(R)
        Wn["rti"].append(np.linalg.inv(R).T if m else R.copy())
    Wc = {"d": mk(Wn["d"]), "di": mk(Wn["di"]), "beta": list(Wn["beta"]), "v": [mk(v) for v in Wn["v"]],
          "r": [mk(r) if r.size else matrix(0.0, (0, 0)) for r in Wn["r"]],
          "rti": [mk(r) if r.size else matrix(0.0, (0, 0)) for r in Wn["rti"]]}
    if mnl:
        Wc["dnl"], Wc["dnli"] = mk(Wn["dnl"]), mk(Wn["dnli"])
    return Wn, Wc


@st.composite
def direct_case(draw):
    kinds = draw(st.sampled_from(["l", "l", "lq", "ls", "lqs", "lqs", "q", "s"]))
    dims = draw(gc.dims_strategy(kinds=kinds))
    mnl = draw(st.sampled_from([0, 0, 0, 1, 2, 3]))
    N = rc.cdim(dims)
    pk = gc.packed_dim(dims) + mnl
    n = draw(st.integers(1, max(1, min(5, pk))))
    p = draw(st.integers(0, min(n, 2)))
    useH = draw(st.booleans())
    Hjunk = draw(st.sampled_from([0.0, 0.0, 1.0, 7.5, -33.0]))       # 1.0: zero upper triangle
    case = dict(dims=dims, mnl=mnl, n=n, p=p,
                G=[[draw(dyv) for _ in range(n)] for _ in range(N)],
                A=[[draw(dyv) for _ in range(n)] for _ in range(p)],
                spG=draw(st.booleans()), spA=draw(st.booleans()), spH=draw(st.booleans()), spDf=draw(st.booleans()),
                useH=useH, Hjunk=Hjunk,
                steps=[])
    nsteps = draw(st.integers(1, 4))
    for _ in range(nsteps):
        stp = dict(W=draw(W_prims(dims, mnl)),
                   Df=[[draw(dyv) for _ in range(n)] for _ in range(mnl)],
                   HB=[[draw(dyv) for _ in range(draw(st.integers(0, n)))] for _ in range(n)] if useH else None,
                   rhs=[dict(bx=[draw(dyv) for _ in range(n)], by=[draw(dyv) for _ in range(p)],
                             bz=[draw(dyv) for _ in range(mnl + N)]) for _ in range(draw(st.integers(1, 2)))])
        case["steps"].append(stp)
    return case


SOLVERS = ["ldl", "ldl2", "chol", "chol2", "qr"]


def make_factory(name, G, dims, A, mnl):
    if name == "ldl":
        return misc.kkt_ldl(G, dims, A, mnl)
    if name == "ldl2":
        return misc.kkt_ldl2(G, dims, A, mnl)
    if name == "chol":
        return misc.kkt_chol(G, dims, A, mnl)
    if name == "chol2":
        return misc.kkt_chol2(G, dims, A, mnl)
    if name == "qr":
        return misc.kkt_qr(G, dims, A)
    raise AssertionError(name)


def direct_oracle(case, stats=None):
    dims, mnl, n, p = case["dims"], case["mnl"], case["n"], case["p"]
    N = rc.cdim(dims)
    Gn = np.array(case["G"], dtype=float).reshape((N, n))
    Gs = rc.symcols(Gn, dims) if N else Gn
    An = np.array(case["A"], dtype=float).reshape((p, n))
    labels = ["mnl:%d" % mnl]
    # per-step numeric data and rank assumptions
    steps = []
    for stp in case["steps"]:
        Wn, Wc = build_W(stp["W"], dims, mnl)
        Df = np.array(stp["Df"], dtype=float).reshape((mnl, n))
        H = None
        if case["useH"]:
            B = np.array([row + [0.0] * (n - len(row)) for row in stp["HB"]], dtype=float).reshape((n, n))
            H = B @ B.T
        GG = np.vstack([Df, Gs])
        M = np.vstack([GG, An] + ([H] if H is not None else []))
        sv = np.linalg.svd(M, compute_uv=False)
        ok = len(sv) >= n and sv[n - 1] >= 1e-2 * max(1.0, sv[0])
        if p:
            sa = np.linalg.svd(An, compute_uv=False)
            ok = ok and p <= n and sa[-1] >= 1e-2 * max(1.0, sa[0])
        if not ok:
            if stats is not None:
                stats.evaluated(case, False, labels + ["skipped:rank"])
            return
        steps.append((Wn, Wc, Df, H, GG))
    names = ["ldl", "ldl2", "chol"]
    if not dims["q"] and not dims["s"]:
        # kkt_chol2 documents that it decides in its FIRST call whether S = H + GG'W^-2 GG is singular:
        # a history in which that class changes between calls is outside its contract
        cls = []
        for (Wn, Wc, Df, H, GG) in steps:
            Wi = ref_kkt.W_packed(Wn, dims, mnl, inverse="I", use_inverse_fields=False) if GG.shape[0] else np.zeros((0, 0))
            S = (GG.T @ Wi.T @ Wi @ GG if GG.shape[0] else np.zeros((n, n))) + (H if H is not None else 0.0)
            sv = np.linalg.svd(S, compute_uv=False)
            cls.append(bool(sv[-1] <= 1e-8 * max(sv[0], 1e-300)) or sv[0] == 0)
        if len(set(cls)) == 1:
            names.append("chol2")
        else:
            labels.append("chol2_skipped:singularity_class_changes")
    if mnl == 0 and not case["useH"]:
        names.append("qr")
    Gm = gc.cvx(Gn, case["spG"]) if Gn.size else (spmatrix([], [], [], (N, n)) if case["spG"] else matrix(0.0, (N, n)))
    Am = gc.cvx(An, case["spA"]) if An.size else (spmatrix([], [], [], (p, n)) if case["spA"] else matrix(0.0, (p, n)))
    sols = {}
    for name in names:
        try:
            fac = make_factory(name, Gm, dims, Am, mnl)
        except Exception as e:
            raise Violation("kkt_%s factory raised %s: %s" % (name, type(e).__name__, e))
        for si, (stp, (Wn, Wc, Df, H, GG)) in enumerate(zip(case["steps"], steps)):
            Wcc = {k: (matrix(v) if isinstance(v, matrix) else ([matrix(t) for t in v] if k in ("v", "r", "rti") else list(v)))
                   for k, v in Wc.items()}
            Hm = None
            if H is not None:
                # only the lower triangle of H is referenced (coneprog.rst / cvxprog.rst): the strict upper triangle
                # may hold anything
                Hj = H.copy()
                hj = case.get("Hjunk", 0.0)
                if hj:
                    for jj in range(n):
                        for ii in range(jj):
                            Hj[ii, jj] = hj + ii - 2 * jj if hj != 1.0 else 0.0
                Hm = sparse(mk(Hj)) if case["spH"] else mk(Hj)
            if mnl:
                Dfm = mk(Df)
                if case["spDf"] and case.get("Hjunk", 0.0) == 0.0:
                    # sparse Df as a user function would build it from a dense gradient: zeros dropped, so the sparsity
                    # pattern changes from one factorization to the next (nothing in the manual asks for a fixed pattern)
                    Dfm = sparse(Dfm)
                elif case["spDf"]:
                    # fixed sparsity pattern (explicit zeros kept)
                    I = [i for j in range(n) for i in range(mnl)]
                    J = [j for j in range(n) for i in range(mnl)]
                    Dfm = spmatrix(list(Dfm), I, J, (mnl, n))
            try:
                if name == "qr":
                    f = fac(Wcc)
                elif mnl:
                    f = fac(Wcc, Hm, Dfm)
                else:
                    f = fac(Wcc, Hm)
            except Exception as e:
                raise Violation("kkt_%s: factor call %d raised %s: %s on data satisfying the rank assumptions" % (
                    name, si, type(e).__name__, e))
            for ri, rhs in enumerate(stp["rhs"]):
                bx, by = np.array(rhs["bx"], dtype=float), np.array(rhs["by"], dtype=float)
                bz = rc.symvec(np.array(rhs["bz"], dtype=float), dims, mnl)
                x, y, z = mk(bx), mk(by), mk(bz)
                try:
                    f(x, y, z)
                except Exception as e:
                    raise Violation("kkt_%s: solve raised %s: %s" % (name, type(e).__name__, e))
                ux, uy, wuz = arr(x), arr(y), arr(z)
                if not (np.all(np.isfinite(ux)) and np.all(np.isfinite(uy)) and np.all(np.isfinite(wuz))):
                    raise Violation("kkt_%s: non-finite solution" % name)
                be, K = ref_kkt.kkt_residual(GG, An, Wn, dims, bx, by, bz, ux, uy, wuz, P=H, mnl=mnl)
                if be > ROUND:
                    raise Violation("kkt_%s (factor %d of the history, rhs %d): backward error %.3e of the documented "
                                    "block system (dims=%r mnl=%d sparse G/A/H=%r/%r/%r)" % (
                                        name, si, ri, be, dims, mnl, case["spG"], case["spA"], case["spH"]))
                lm = rc.lower_mask(dims, mnl)
                key = (si, ri)
                cur = np.concatenate([ux, uy, wuz[lm]])
                condK = np.linalg.cond(K) if K.size else 1.0
                if key in sols:
                    oname, other = sols[key]
                    tol = ROUND * condK * (1 + np.linalg.norm(other)) + 1e-12
                    if np.max(np.abs(cur - other)) > tol:
                        raise Violation("kkt_%s and kkt_%s disagree by %.3e (tolerance %.1e, cond(K)=%.1e)" % (
                            name, oname, float(np.max(np.abs(cur - other))), tol, condK))
                else:
                    sols[key] = (name, cur)
                # history independence: last factor call vs a fresh factory
                if si == len(steps) - 1 and si > 0 and ri == 0:
                    fac2 = make_factory(name, Gm, dims, Am, mnl)
                    Wc2 = {k: (matrix(v) if isinstance(v, matrix) else ([matrix(t) for t in v] if k in ("v", "r", "rti") else list(v)))
                           for k, v in Wc.items()}
                    f2 = fac2(Wc2) if name == "qr" else (fac2(Wc2, Hm, Dfm) if mnl else fac2(Wc2, Hm))
                    x2, y2, z2 = mk(bx), mk(by), mk(bz)
                    f2(x2, y2, z2)
                    fresh = np.concatenate([arr(x2), arr(y2), arr(z2)[lm]])
                    tol = ROUND * condK * (1 + np.linalg.norm(fresh)) + 1e-12
                    if np.max(np.abs(cur - fresh)) > tol:
                        raise Violation("kkt_%s: solve after %d earlier factor calls differs from a fresh factory by %.3e" % (
                            name, si, float(np.max(np.abs(cur - fresh)))))
    big = any(m >= 2 for m in dims["q"]) or any(m >= 2 for m in dims["s"])
    if stats is not None:
        stats.evaluated(case, bool(big and len(steps) >= 2) or bool(big and mnl), labels + ["solvers:%d" % len(names)])


# ----------------------------------------------------------------- scalings

@st.composite
def scaling_case(draw):
    kinds = draw(st.sampled_from(["l", "lq", "ls", "lqs", "lqs", "q", "s"]))
    dims = draw(gc.dims_strategy(kinds=kinds))
    mnl = draw(st.sampled_from([None, None, 0, 1, 2]))
    N = rc.cdim(dims, mnl or 0)
    def pt():
        return dict(u=[draw(dyv) for _ in range(N)], delta=draw(st.sampled_from([0.25, 0.5, 1.0, 2.0])))
    return dict(dims=dims, mnl=mnl, s=pt(), z=pt(), updates=[dict(s=pt(), z=pt()) for _ in range(draw(st.integers(0, 3)))])


def interior_nl(p, dims, mnl):
    u = np.array(p["u"], dtype=float)
    out = np.empty_like(u)
    out[:mnl] = np.abs(u[:mnl]) + p["delta"]
    out[mnl:] = gc.interior(u[mnl:], p["delta"], dims)
    return out


def W_cond(Wn):
    """max over blocks of ||W_k|| ||W_k^-1|| (the natural scale of rounding errors in a scaling)."""
    wc = 1.0
    for r_, rti_ in zip(Wn["r"], Wn["rti"]):
        if r_.size:
            wc = max(wc, (np.linalg.norm(r_, 2) * np.linalg.norm(rti_, 2)) ** 2)
    for k in ("d", "dnl"):
        if k in Wn and len(Wn[k]):
            wc = max(wc, float(np.max(Wn[k]) / np.min(Wn[k])))
    for v_ in Wn["v"]:
        wc = max(wc, (2 * float(v_ @ v_)) ** 2)
    return wc


def check_scaled_point(Wc, lmbda, s, z, dims, mnl, where, runmax=1.0):
    """runmax: largest W_cond seen earlier in the same update chain; rounding errors committed while the
    scaling was that ill-conditioned persist, so tolerances are relative to it."""
    Wn = rc.W_from_cvxopt(Wc)
    msgs = rc.check_W(Wn, dims, mnl, tol=ROUND * max(1.0, runmax))
    if msgs:
        raise Violation("%s: scaling violates its invariants: %s" % (where, "; ".join(msgs[:3])))
    lam = rc.lmbda_full(arr(lmbda) if lmbda.size[0] else np.zeros(0), dims, mnl)
    wz = rc.apply_W(Wn, z, dims, mnl=mnl)
    wts = rc.apply_W(Wn, s, dims, trans="T", inverse="I", mnl=mnl)
    lm = rc.lower_mask(dims, mnl)
    nW = 1.0
    for r in Wn["r"]:
        if r.size:
            nW = max(nW, np.linalg.norm(r, 2) ** 2)
    for r in Wn["rti"]:
        if r.size:
            nW = max(nW, np.linalg.norm(r, 2) ** 2)
    for b, v in zip(Wn["beta"], Wn["v"]):
        nW = max(nW, b * 2 * float(v @ v), 2 * float(v @ v) / b)
    sc = (nW * (1 + np.linalg.norm(s) + np.linalg.norm(z)) + np.linalg.norm(lam)) * max(1.0, runmax)
    e1 = float(np.max(np.abs(wz[lm] - lam[lm]))) if lam.size else 0.0
    e2 = float(np.max(np.abs(wts[lm] - lam[lm]))) if lam.size else 0.0
    if e1 > ROUND * sc or e2 > ROUND * sc:
        raise Violation("%s: W z - lambda = %.3e, W^-T s - lambda = %.3e (scale %.2e) for dims=%r" % (where, e1, e2, sc, dims))
    return Wn, lam


def scaling_oracle(case, stats=None):
    dims, mnl = case["dims"], case["mnl"]
    m0 = mnl or 0
    N = rc.cdim(dims, m0)
    s = interior_nl(case["s"], dims, m0)
    z = interior_nl(case["z"], dims, m0)
    Nd = m0 + dims["l"] + sum(dims["q"]) + sum(dims["s"])
    lmbda = matrix(0.0, (Nd, 1))
    sm, zm = mk(s), mk(z)
    try:
        W = misc.compute_scaling(sm, zm, lmbda, dims, mnl)
    except Exception as e:
        raise Violation("compute_scaling raised %s: %s on strictly interior s, z" % (type(e).__name__, e))
    if not (np.array_equal(arr(sm), s) and np.array_equal(arr(zm), z)):
        raise Violation("compute_scaling modified s or z")
    if (mnl is None) != ("dnl" not in W):
        raise Violation("compute_scaling: 'dnl' present=%r for mnl=%r" % ("dnl" in W, mnl))
    Wn, lam = check_scaled_point(W, lmbda, s, z, dims, m0, "compute_scaling")
    nup = 0
    for up in case["updates"]:
        s2 = interior_nl(up["s"], dims, m0)
        z2 = interior_nl(up["z"], dims, m0)
        # new iterates in the current scaling
        st_ = rc.apply_W(Wn, s2, dims, trans="T", inverse="I", mnl=m0)
        zt_ = rc.apply_W(Wn, z2, dims, mnl=m0)
        for kind, ind, m in rc.blocks(dims, m0):
            if kind == "s" and m:
                for vec in (st_, zt_):
                    M = vec[ind:ind + m * m].reshape((m, m), order="F")
                    L = np.linalg.cholesky(0.5 * (M + M.T))
                    vec[ind:ind + m * m] = L.reshape(-1, order="F")
        try:
            misc.update_scaling(W, lmbda, mk(st_), mk(zt_))
        except Exception as e:
            raise Violation("update_scaling raised %s: %s on strictly interior new iterates" % (type(e).__name__, e))
        nup += 1
        Wn, lam = check_scaled_point(W, lmbda, s2, z2, dims, m0, "update_scaling #%d" % nup)
    big = any(m >= 2 for m in dims["q"]) or any(m >= 2 for m in dims["s"])
    if stats is not None:
        stats.evaluated(case, bool(big and nup >= 1), ["scaling", "updates:%d" % nup])


# ----------------------------------------------------------------- in-solve stream

@st.composite
def insolve_case(draw):
    kinds = draw(st.sampled_from(["l", "lq", "ls", "lqs", "lqs", "q", "s"]))
    qp = draw(st.booleans())
    prob = draw(gc.cone_case(kind=draw(st.sampled_from(["feas", "feas", "pinf", "dinf"])) if not qp else "feas",
                             kinds=kinds, qp=qp))
    return dict(prob=prob, qp=qp, kkt=draw(st.sampled_from(["ldl", "ldl2", "chol"] + ([] if qp else ["qr"]))),
                refinement=draw(st.sampled_from([None, 0, 1, 2])))


# Scalings are judged while the chain of updates has stayed moderately conditioned: once W_cond has exceeded
# CUTOFF the iterates are at the limit of double precision (gap ~ 1e-8 relative) and a solve that has not
# stopped by then is in numerical breakdown ('unknown' is the documented outcome); nothing is claimed there.
CUTOFF = 1e10


class Stream:
    """Wraps misc.compute_scaling / misc.update_scaling and the KKT solver during a real solve."""
    def __init__(self, dims):
        self.dims = dims
        self.nW = 0
        self.nsolve = 0
        self.runmax = 1.0
        self.skipped = 0
        self.orig_cs = misc.compute_scaling
        self.orig_us = misc.update_scaling
        self.err = None

    def __enter__(self):
        S = self

        def cs(s, z, lmbda, dims, mnl=None):
            W = S.orig_cs(s, z, lmbda, dims, mnl)
            S.runmax = max(S.runmax, W_cond(rc.W_from_cvxopt(W)))
            if S.runmax > CUTOFF:
                S.skipped += 1
            elif S.err is None:
                try:
                    check_scaled_point(W, lmbda, arr(s), arr(z), dims, mnl or 0, "in-solve compute_scaling", S.runmax)
                    S.nW += 1
                except Violation as v:
                    S.err = v
            return W

        def us(W, lmbda, s, z):
            dims = S.dims
            mnl = len(W["dnl"]) if "dnl" in W else 0
            Wold = rc.W_from_cvxopt(W)
            sa, za = arr(s).copy(), arr(z).copy()
            for kind, ind, m in rc.blocks(dims, mnl):
                if kind == "s" and m:
                    for vec in (sa, za):
                        L = vec[ind:ind + m * m].reshape((m, m), order="F")
                        vec[ind:ind + m * m] = (L @ L.T).reshape(-1, order="F")
            # unscaled new iterates, reconstructed with the previous scaling
            snew = rc.apply_W(Wold, sa, dims, trans="T", mnl=mnl)
            znew = rc.apply_W(Wold, za, dims, inverse="I", mnl=mnl)
            S.orig_us(W, lmbda, s, z)
            S.runmax = max(S.runmax, W_cond(rc.W_from_cvxopt(W)))
            if S.runmax > CUTOFF:
                S.skipped += 1
            elif S.err is None:
                try:
                    check_scaled_point(W, lmbda, snew, znew, dims, mnl, "in-solve update_scaling #%d" % S.nW, S.runmax)
                    S.nW += 1
                except Violation as v:
                    S.err = v
        misc.compute_scaling = cs
        misc.update_scaling = us
        return self

    def __exit__(self, *a):
        misc.compute_scaling = self.orig_cs
        misc.update_scaling = self.orig_us


def insolve_oracle(case, stats=None):
    from checks import c03
    prob, qp = case["prob"], case["qp"]
    mat = c03.qp_data(prob) if qp else gc.materialize(prob)
    dims = mat["dims"]
    ok = mat["qp_rank_ok"] if qp else mat["rank_ok"]
    if not ok:
        if stats is not None:
            stats.evaluated(case, False, ["insolve", "skipped:rank"])
        return
    n, p = mat["n"], mat["p"]
    Gm, Am = gc.cvx_dense(mat["G"]), gc.cvx_dense(mat["A"])
    fac = make_factory(case["kkt"], Gm, dims, Am, 0)
    Pn = mat["P"] if qp else None
    Pm = gc.cvx_dense(Pn) if qp else None
    state = dict(err=None, nsolve=0, maxcond=0.0)

    def kktsolver(W):
        Wn = rc.W_from_cvxopt(W)
        state["runmax"] = max(state.get("runmax", 1.0), W_cond(Wn))
        msgs = rc.check_W(Wn, dims, 0, tol=ROUND * state["runmax"]) if state["runmax"] <= CUTOFF else []
        if msgs and state["err"] is None:
            state["err"] = Violation("scaling handed to kktsolver violates its invariants: %s" % "; ".join(msgs[:3]))
        f = fac(W) if case["kkt"] == "qr" else fac(W, Pm)

        def solve(x, y, z):
            bx, by, bz = arr(x).copy(), arr(y).copy(), arr(z).copy()
            f(x, y, z)
            if state["err"] is None:
                wc = state["runmax"]
                state["maxcond"] = max(state["maxcond"], wc)
                if wc <= 1e6:      # backward-error contract is claimed for moderately conditioned W
                    be, K = ref_kkt.kkt_residual(mat["Gs"], mat["A"], Wn, dims, bx, by, rc.symvec(bz, dims),
                                                 arr(x), arr(y), arr(z), P=Pn)
                    state["nsolve"] += 1
                    if be > 1e-8:
                        state["err"] = Violation("in-solve kkt_%s solve: backward error %.3e (cond W ~ %.1e)" % (case["kkt"], be, wc))
        return solve
    opts = {"show_progress": False}
    if case["refinement"] is not None:
        opts["refinement"] = case["refinement"]
    with Stream(dims) as S:
        try:
            if qp:
                sol = solvers.coneqp(Pm, gc.cvx_dense(mat["q"]), Gm, gc.cvx_dense(mat["h"]), dims, Am,
                                     gc.cvx_dense(mat["b"]), kktsolver=kktsolver, options=opts)
            else:
                sol = solvers.conelp(gc.cvx_dense(mat["c"]), Gm, gc.cvx_dense(mat["h"]), dims, Am,
                                     gc.cvx_dense(mat["b"]), kktsolver=kktsolver, options=opts)
            status = sol["status"]
        except (ValueError, ArithmeticError, ZeroDivisionError) as e:
            status = "raised:" + type(e).__name__
    err = S.err or state["err"]
    if err is not None:
        raise err
    big = any(m >= 2 for m in dims["q"]) or any(m >= 2 for m in dims["s"])
    if stats is not None:
        stats.evaluated(case, bool(big and S.nW >= 2), ["insolve", "status:" + status, "kkt:" + case["kkt"]])
        stats.extra["insolve_W_checked"] = stats.extra.get("insolve_W_checked", 0) + S.nW
        stats.extra["insolve_solves_checked"] = stats.extra.get("insolve_solves_checked", 0) + state["nsolve"]


# ------------------------------------------------------------------ part "patterns": KKT solvers on sparse patterns

@st.composite
def kktpattern_case(draw):
    """pure 'l' cone, 6..10 variables, genuinely sparse G (2-3 entries per row plus -I rows), dense or sparse A,
    H absent or sparse diagonal: large enough for non-trivial fill-reducing orderings in kkt_chol2 / kkt_ldl2"""
    n = draw(st.integers(6, 10))
    mrows = draw(st.integers(3, 7))
    p = draw(st.integers(0, 2))
    rows = [[(draw(st.integers(0, n - 1)), draw(st.integers(-4, 4)) / 2.0) for _ in range(draw(st.integers(2, 3)))] for _ in range(mrows)]
    return dict(n=n, mrows=mrows, p=p, rows=rows, A=[[draw(st.integers(-4, 4)) / 2.0 for _ in range(n)] for _ in range(p)],
                d=[[draw(st.integers(1, 8)) / 4.0 for _ in range(mrows + n)] for _ in range(draw(st.integers(1, 3)))],
                H=draw(st.sampled_from([None, None, "diag"])), hd=[draw(st.integers(0, 4)) / 2.0 for _ in range(n)],
                spA=draw(st.booleans()), rhs=[draw(st.integers(-4, 4)) / 2.0 for _ in range(2 * n + mrows + p)])


def kktpattern_oracle(case, stats=None):
    n, mrows, p = case["n"], case["mrows"], case["p"]
    m = mrows + n
    G = np.zeros((m, n))
    for i, r in enumerate(case["rows"]):
        for j, v in r:
            G[i, j] += v
    for j in range(n):
        G[mrows + j, j] = -1.0
    A = np.array(case["A"], dtype=float).reshape((p, n))
    if p and np.linalg.matrix_rank(A) < p:
        if stats is not None:
            stats.evaluated(case, False, ["kktpatterns", "skipped:rank"])
        return
    dims = {"l": m, "q": [], "s": []}
    H = np.diag(case["hd"]) if case["H"] else None
    I = [i for i in range(m) for j in range(n) if G[i, j] != 0.0]
    J = [j for i in range(m) for j in range(n) if G[i, j] != 0.0]
    Gm = spmatrix([G[i, j] for i, j in zip(I, J)], I, J, (m, n))
    Am = (sparse(mk(A)) if case["spA"] else mk(A)) if p else (spmatrix([], [], [], (0, n)) if case["spA"] else matrix(0.0, (0, n)))
    Hm = None
    if H is not None:
        Hm = spmatrix(list(np.diag(H)), range(n), range(n), (n, n))
    rhs = np.array(case["rhs"], dtype=float)
    bx, by, bz = rhs[:n], rhs[n:n + p], rhs[n + p:n + p + m]
    sols = {}
    for name in ("ldl", "chol2", "chol", "ldl2"):
        fac = make_factory(name, Gm, dims, Am, 0)
        for si, d in enumerate(case["d"]):
            dv = np.array(d, dtype=float)
            Wc = {"d": mk(dv), "di": mk(1.0 / dv), "dnl": matrix(0.0, (0, 1)), "dnli": matrix(0.0, (0, 1)), "beta": [], "v": [], "r": [], "rti": []}
            Wn = rc.W_from_cvxopt(Wc)
            try:
                f = fac(Wc, Hm)
                x, y, z = mk(bx), mk(by), mk(bz)
                f(x, y, z)
            except Exception as e:       # noqa
                raise Violation("kkt_%s on a sparse pattern (n=%d, %d rows, p=%d, A %s, H %s), factor %d: raised %s: %s" % (
                    name, n, m, p, "sparse" if case["spA"] else "dense", case["H"], si, type(e).__name__, e))
            ux, uy, wuz = arr(x), arr(y), arr(z)
            be, K = ref_kkt.kkt_residual(G, A, Wn, dims, bx, by, bz, ux, uy, wuz, P=H, mnl=0)
            if not np.all(np.isfinite(np.concatenate([ux, uy, wuz]))) or be > ROUND:
                raise Violation("kkt_%s on a sparse pattern (n=%d, %d rows, p=%d, A %s, H %s), factor %d: backward error %.3e of the "
                                "documented block system" % (name, n, m, p, "sparse" if case["spA"] else "dense", case["H"], si, be))
            cur = np.concatenate([ux, uy, wuz])
            if si in sols:
                tol = ROUND * (np.linalg.cond(K) if K.size else 1.0) * (1 + np.linalg.norm(sols[si][1])) + 1e-12
                if np.max(np.abs(cur - sols[si][1])) > tol:
                    raise Violation("kkt_%s and kkt_%s disagree by %.3e on a sparse pattern" % (name, sols[si][0], float(np.max(np.abs(cur - sols[si][1])))))
            else:
                sols[si] = (name, cur)
    if stats is not None:
        stats.evaluated(case, True, ["kktpatterns", "kktpatterns:p=%d" % p, "kktpatterns:H=%s" % case["H"]])


# ------------------------------------------------------------------ part "restore": W after cpl's restore-and-retry

@st.composite
def restore_case(draw):
    """minimize c'x  s.t.  sum_i exp(K a_i'x) <= rhs,  ||x||_2 <= R   (one nonlinear constraint, one 'q' block, optional
    'l' rows): steep exponentials make cpl's standard line search fail, so that relaxed steps and restores occur"""
    n = draw(st.integers(2, 3))
    m = draw(st.integers(1, 2))
    return dict(n=n, m=m, K=draw(st.sampled_from([5.0, 10.0, 25.0])), A=[[draw(st.integers(-4, 4)) / 4.0 for _ in range(n)] for _ in range(m)],
                c=[draw(st.integers(-4, 4)) / 2.0 for _ in range(n)], x0=[draw(st.integers(-2, 2)) / 4.0 for _ in range(n)],
                xscale=draw(st.sampled_from([0.5, 1.0, 2.0])), lrows=draw(st.integers(0, 2)), form=draw(st.sampled_from(["cpl", "cpl", "cp"])),
                sblock=draw(st.booleans()))


def restore_problem(case):
    """-> dict with the cvxopt data and callback of a restore_case (also used by C10's 'restore' part)."""
    from cvxopt import exp as cexp
    n, m, K = case["n"], case["m"], case["K"]
    Aa = np.array(case["A"], dtype=float).reshape((m, n))
    x0 = np.array(case["x0"], dtype=float) * case["xscale"]
    c = np.array(case["c"], dtype=float)
    R = 2.0 + float(np.linalg.norm(x0))
    rhs = float(np.sum(np.exp(K * (Aa @ x0))) + 1.0)
    l = case["lrows"]
    G = np.zeros((l + n + 1, n))
    h = np.zeros(l + n + 1)
    for i in range(l):
        G[i, i % n] = 1.0
        h[i] = abs(x0[i % n]) + 3.0
    h[l] = R
    for i in range(n):
        G[l + 1 + i, i] = -1.0
    dims = {"l": l, "q": [n + 1], "s": []}
    if case.get("sblock"):
        # 's' block of order 2:  [[R, x_0], [x_0, R]] >= 0  (|x_0| <= R), stored column-major
        Gs2 = np.zeros((4, n))
        Gs2[1, 0] = -1.0
        Gs2[2, 0] = -1.0
        G = np.vstack([G, Gs2])
        h = np.concatenate([h, [R, 0.0, 0.0, R]])
        dims = {"l": l, "q": [n + 1], "s": [2]}
    Gm, hm = gc.cvx_dense(G), gc.cvx_dense(h)
    Am = gc.cvx_dense(Aa)
    cm = gc.cvx_dense(c)
    cp_form = case["form"] == "cp"

    def F(x=None, z=None):
        if x is None:
            return (0 if cp_form else 1), gc.cvx_dense(x0)
        e = cexp(K * (Am * x))
        Df = (K * (Am.T * e)).T
        Hc = K * K * (Am.T * spmatrix(list(e), range(m), range(m)) * Am)
        if cp_form:
            # objective c'x + (sum exp - rhs) as a single convex objective, no nonlinear constraints
            f = (cm.T * x)[0] + sum(e) - rhs
            Df = cm.T + Df
        else:
            f = matrix([sum(e) - rhs])
        if z is None:
            return f, Df
        return f, Df, z[0] * matrix(Hc)

    return dict(F=F, cm=cm, Gm=Gm, hm=hm, dims=dims, cp_form=cp_form, n=n, m=m, K=K, Aa=Aa, rhs=rhs, c=c, G=G, h=h)


def restore_oracle(case, stats=None):
    """cpl/cp save the iterate and its scaling before relaxed line searches and go back to them when a step fails.
    The scaling handed to the KKT solver belongs to the iterate: when the first kktsolver call after a failure receives
    bit-identical (x, z) as an earlier call of the same solve (the saved iterate), it must receive the same W, and the
    first system it solves (the affine-scaling direction, a function of the iterate alone) must have the same
    right-hand side.  A failure (ArithmeticError) is injected into every kktsolver call in turn to provoke the restore path."""
    pr = restore_problem(case)
    F, cm, Gm, hm, dims, cp_form, n = pr["F"], pr["cm"], pr["Gm"], pr["hm"], pr["dims"], pr["cp_form"], pr["n"]

    def run(fail_at):
        rec = []
        factor = misc.kkt_ldl(Gm, dims, matrix(0.0, (0, n)), 0 if cp_form else 1)

        def kktsolver(x, z, W):
            f, Df, H = F(x, z)
            Wn = rc.W_from_cvxopt(W)
            flat = np.concatenate([np.ravel(np.asarray(v, dtype=float)) for kk in sorted(Wn)
                                   for v in (Wn[kk] if isinstance(Wn[kk], list) else [Wn[kk]])]) if Wn else np.zeros(0)
            entry = [repr(list(x)), repr(list(z)), flat, None]
            rec.append(entry)
            if len(rec) - 1 == fail_at:
                raise ArithmeticError("injected")
            f3 = factor(W, H, Df) if not cp_form else factor(W, H)

            def solve(bx, by, bz):
                if entry[3] is None:
                    entry[3] = np.concatenate([np.array(list(bx)), np.array(list(by)), np.array(list(bz))])
                return f3(bx, by, bz)
            return solve
        try:
            if cp_form:
                solvers.cp(F, Gm, hm, dims, kktsolver=kktsolver, options={"show_progress": False})
            else:
                solvers.cpl(cm, F, Gm, hm, dims, kktsolver=kktsolver, options={"show_progress": False})
        except (ValueError, ArithmeticError, ZeroDivisionError, OverflowError):
            pass
        return rec
    base = run(None)
    restores = 0
    for k in range(1, min(len(base), 40)):
        rec = run(k)
        if len(rec) <= k + 1:
            continue
        xk, zk, Wk, rhsk = rec[k + 1]
        for j in range(k + 1):
            if rec[j][0] == xk and rec[j][1] == zk:
                restores += 1
                old = rec[j][2]
                dev = float(np.max(np.abs(old - Wk)) / max(1.0, float(np.max(np.abs(old))))) if old.size and old.shape == Wk.shape else 1.0
                if dev > 1e-10:
                    raise Violation("%s, ArithmeticError injected into kktsolver call #%d: the retry starts from the iterate of call #%d "
                                    "(identical x, z) but receives a scaling W that differs from the one of that call (relative %.2e): "
                                    "W is not the scaling of the current iterate" % (case["form"], k, j, dev))
                r0 = rec[j][3]
                if r0 is not None and rhsk is not None and r0.shape == rhsk.shape:
                    dev = float(np.max(np.abs(r0 - rhsk)) / max(1.0, float(np.max(np.abs(r0)))))
                    if dev > 1e-9:
                        raise Violation("%s, ArithmeticError injected into kktsolver call #%d: the retry starts from the iterate of call "
                                        "#%d (identical x, z, W) but the first KKT system it solves (the affine-scaling direction, which "
                                        "depends on the iterate only) has a different right-hand side (relative %.2e): part of the "
                                        "saved state was not restored" % (case["form"], k, j, dev))
                break
    if stats is not None:
        stats.evaluated(case, restores > 0, ["restore", "restores:%d" % min(restores, 5), "form:" + case["form"]])


def search(ctx, stats):
    if ctx.part == "patterns":
        v = run_given(kktpattern_case(), lambda c: kktpattern_oracle(c, stats), ctx.seed, ctx.n(4000, 100000), stats)
        return [v] if v else []
    if ctx.part == "restore":
        v = run_given(restore_case(), lambda c: restore_oracle(c, stats), ctx.seed, ctx.n(250, 6000), stats)
        return [v] if v else []
    part = ctx.part
    if part == "direct":
        v = run_given(direct_case(), lambda c: direct_oracle(c, stats), ctx.seed, ctx.n(6000, 120000), stats)
    elif part == "scaling":
        v = run_given(scaling_case(), lambda c: scaling_oracle(c, stats), ctx.seed, ctx.n(12000, 300000), stats)
    else:
        v = run_given(insolve_case(), lambda c: insolve_oracle(c, stats), ctx.seed, ctx.n(2000, 40000), stats)
    return [v] if v else []


def replay(case, part):
    try:
        {"direct": direct_oracle, "scaling": scaling_oracle, "insolve": insolve_oracle, "restore": restore_oracle, "patterns": kktpattern_oracle}[part](case)
    except Violation as v:
        return v.msg
    return None
