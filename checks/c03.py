"""C03 — 'optimal' from coneqp/qp satisfies the QP KKT conditions."""
import numpy as np
from hypothesis import strategies as st
from vlib.harness import Violation, run_given
from vlib import ref_cone as rc, gen_cone as gc, judge, runlp, ref_kkt

KNOWN = {"chol2-singular-S": False}


@st.composite
def qp_config(draw, dims, p, N):
    pure_l = not dims["q"] and not dims["s"]
    entry = draw(st.sampled_from(["coneqp", "coneqp", "qp"] if pure_l else ["coneqp"]))
    kk = [None, None, "ldl", "ldl2", "chol", "np", "wrap_ldl"]
    if pure_l:
        kk.append("chol2")
    kkt = draw(st.sampled_from(kk))
    form = "matrix"
    if entry == "coneqp" and draw(st.integers(0, 5)) == 0:
        form = "operator"
        kkt = "np"
    opts = {}
    if draw(st.booleans()):
        opts["feastol"] = draw(st.sampled_from([1e-4, 1e-5, 1e-6, 1e-8, 1e-9]))
    if draw(st.booleans()):
        opts["abstol"] = draw(st.sampled_from([1e-4, 1e-6, 1e-8, 1e-9, 0.0, -1.0]))
    if draw(st.booleans()):
        opts["reltol"] = draw(st.sampled_from([1e-4, 1e-5, 1e-7, 1e-8, 0.0, -1.0]))
        if opts.get("reltol", 1e-6) <= 0 and opts.get("abstol", 1e-7) <= 0:
            opts["reltol"] = 1e-7          # at least one of the two must be positive
    if draw(st.integers(0, 3)) == 0:
        opts["refinement"] = draw(st.integers(0, 2))
    if draw(st.integers(0, 5)) == 0:
        opts["maxiters"] = draw(st.sampled_from([3, 8, 30]))
    init = draw(st.sampled_from([None, None, None] + [["x"], ["s"], ["z"], ["y"], ["x", "s"], ["s", "z"],
                                                       ["x", "s", "y", "z"]]))
    cfg = dict(entry=entry, kkt=kkt, form=form, opts=opts, init=init,
               spP=draw(st.booleans()), spG=draw(st.booleans()), spA=draw(st.booleans()),
               Pjunk=draw(st.sampled_from([0.0, 0.0, 5.5, -100.0])),
               omitG=draw(st.booleans()))
    if init:
        cfg["init_data"] = dict(su=[draw(gc.dy(-4, 4)) for _ in range(N)], zu=[draw(gc.dy(-4, 4)) for _ in range(N)],
                                xs=draw(st.integers(-3, 3)), ys=draw(st.integers(-3, 3)),
                                delta=draw(st.sampled_from([0.5, 1.0, 4.0])))
    return cfg


@st.composite
def case_strategy(draw):
    kinds = draw(st.sampled_from(["l", "l", "lq", "ls", "lqs", "q", "s", "none"]))
    if kinds == "none":
        dims = {"l": 0, "q": [], "s": draw(st.sampled_from([[], [0], []]))}
        prob = draw(gc.cone_case(kind="feas", dims=dims, qp=True))
    else:
        prob = draw(gc.cone_case(kind="feas", kinds=kinds, qp=True))
    cfg = draw(qp_config(prob["dims"], prob["p"], rc.cdim(prob["dims"])))
    return dict(prob=prob, cfg=cfg)


def qp_data(prob):
    mat = gc.materialize(prob)
    P = mat["P"]
    mat["q"] = mat["c"] - P @ mat["x0"]       # planted: P x0 + q + G'z0 + A'y0 = 0
    n = mat["n"]
    M = np.vstack([P, mat["Gs"], mat["A"]])
    sv = np.linalg.svd(M, compute_uv=False)
    ok = len(sv) >= n and sv[n - 1] >= 1e-3 * max(1.0, sv[0])
    if mat["p"]:
        sa = np.linalg.svd(mat["A"], compute_uv=False)
        ok = ok and mat["p"] <= n and sa[-1] >= 1e-3 * max(1.0, sa[0])
    mat["qp_rank_ok"] = bool(ok)
    return mat


def call_qp(cfg, mat):
    from cvxopt import matrix, solvers, blas, base
    dims = mat["dims"]
    n, p, N = mat["n"], mat["p"], rc.cdim(dims)
    P = mat["P"].copy()
    if cfg["Pjunk"]:
        for j in range(n):
            for i in range(j):
                P[i, j] = cfg["Pjunk"] + i - j
    Pm = gc.cvx(P, cfg["spP"])
    q = gc.cvx_dense(mat["q"])
    G = gc.cvx(mat["G"], cfg["spG"])
    h = gc.cvx_dense(mat["h"])
    A = gc.cvx(mat["A"], cfg["spA"])
    b = gc.cvx_dense(mat["b"])
    opts = dict(cfg["opts"])
    opts["show_progress"] = False
    name = cfg["kkt"]
    if name == "np":
        kkt = ref_kkt.make_kktsolver(mat["Gs"], mat["A"], dims, P=mat["P"])
    elif name == "wrap_ldl":
        from cvxopt import misc
        fac = misc.kkt_ldl(gc.cvx_dense(mat["G"]), dims, gc.cvx_dense(mat["A"]))
        Pd = gc.cvx_dense(mat["P"])
        kkt = lambda W: fac(W, Pd)
    else:
        kkt = name
    iv = None
    if cfg["init"]:
        d = cfg["init_data"]
        iv = {}
        if "x" in cfg["init"]:
            iv["x"] = gc.cvx_dense(np.full(n, d["xs"] / 2.0))
        if "y" in cfg["init"]:
            iv["y"] = gc.cvx_dense(np.full(p, d["ys"] / 2.0))
        if "s" in cfg["init"]:
            iv["s"] = gc.cvx_dense(gc.interior(d["su"], d["delta"], dims))
        if "z" in cfg["init"]:
            iv["z"] = gc.cvx_dense(gc.interior(d["zu"], d["delta"], dims))
    if cfg["entry"] == "qp":
        if N == 0 and cfg["omitG"]:
            return solvers.qp(Pm, q, None, None, A if p else None, b if p else None, kktsolver=kkt,
                              initvals=iv, options=opts)
        return solvers.qp(Pm, q, G, h, A, b, kktsolver=kkt, initvals=iv, options=opts)
    if cfg["form"] == "operator":
        Pn, Gn, An = mat["P"], mat["Gs"], mat["A"]

        def npv(x):
            return np.array(list(x), dtype=float)

        def put(y, v):
            if len(v):
                y[:] = matrix(v.tolist(), (len(v), 1), "d")

        def fP(x, y, alpha=1.0, beta=0.0):
            put(y, alpha * (Pn @ npv(x)) + beta * npv(y))

        def fG(x, y, trans="N", alpha=1.0, beta=0.0):
            if trans == "N":
                put(y, alpha * (Gn @ npv(x)) + beta * rc.symvec(npv(y), dims))
            else:
                put(y, alpha * (Gn.T @ rc.symvec(npv(x), dims)) + beta * npv(y))

        def fA(x, y, trans="N", alpha=1.0, beta=0.0):
            if trans == "N":
                put(y, alpha * (An @ npv(x)) + beta * npv(y))
            else:
                put(y, alpha * (An.T @ npv(x)) + beta * npv(y))
        return solvers.coneqp(fP, q, fG, h, dims, fA, b, initvals=iv, kktsolver=kkt, options=opts)
    if N == 0 and cfg["omitG"]:
        return solvers.coneqp(Pm, q, None, None, None, A if p else None, b if p else None, initvals=iv,
                              kktsolver=kkt, options=opts)
    return solvers.coneqp(Pm, q, G, h, dims, A, b, initvals=iv, kktsolver=kkt, options=opts)


def judge_optimal_qp(D, sol, v, feastol, abstol, reltol, maxiters):
    msgs = []
    for k in ("x", "s", "y", "z"):
        if v[k] is None:
            return ["'optimal' but %s is None" % k]
    x, s, y, z = v["x"], v["s"], v["y"], v["z"]
    if len(x) != D.n or len(s) != D.N or len(z) != D.N or len(y) != D.p:
        return ["returned vector sizes x:%d s:%d y:%d z:%d, expected %d %d %d %d" % (
            len(x), len(s), len(y), len(z), D.n, D.N, D.p, D.N)]
    if not all(np.all(np.isfinite(t)) for t in (x, s, y, z)):
        return ["non-finite entries in the returned vectors"]
    r = judge.recompute_qp(D, x, s, y, z)
    R = judge.ROUND
    if r["pres"] > feastol * (1 + 1e-6) + R * r["pres_scale"]:
        msgs.append("recomputed primal infeasibility %.3e > feastol %.1e" % (r["pres"], feastol))
    if r["dres"] > feastol * (1 + 1e-6) + R * r["dres_scale"]:
        msgs.append("recomputed dual infeasibility ||Px+G'z+A'y+q||/max(1,||q||) = %.3e > feastol %.1e" % (
            r["dres"], feastol))
    if D.N:
        if r["pslack"] < -R * max(1.0, r["ns"]):
            msgs.append("s outside the cone: min slack %.3e" % r["pslack"])
        if r["dslack"] < -R * max(1.0, r["nz"]):
            msgs.append("z outside the cone: min slack %.3e" % r["dslack"])

    def fld(name, val, scale):
        rep = sol.get(name)
        if not judge.isnum(rep):
            msgs.append("field %r = %r" % (name, rep))
        elif not judge.close(rep, val, scale):
            msgs.append("field %r = %r but recomputed %r (scale %.2e)" % (name, rep, val, scale))
    fld("gap", r["gap"], r["gap_scale"])
    fld("primal objective", r["pcost"], r["pcost_scale"])
    fld("dual objective", r["dcost"], r["dcost_scale"] + r["gap_scale"])
    fld("primal infeasibility", r["pres"], r["pres_scale"])
    fld("dual infeasibility", r["dres"], r["dres_scale"])
    if D.N:
        fld("primal slack", r["pslack"], max(1.0, r["ns"]))
        fld("dual slack", r["dslack"], max(1.0, r["nz"]))
    # relative gap: gap/-pcost if pcost < 0; gap/dcost if dcost > 0; None otherwise.  In the branch
    # "solved directly" (no inequalities) gap is 0, and 0.0 / None both describe it.
    r["dcost_extra"] = r["gap_scale"]
    judge.check_relgap(sol, r, msgs, extra_none_ok=(D.N == 0))
    pc, dc = r["pcost"], r["dcost"]
    # gap criterion (three documented alternatives)
    g = r["gap"]
    # without inequality constraints there are no s, z: the gap is identically 0 and there is nothing to be judged
    # (a nonpositive abstol, which only switches the absolute criterion off, must not turn this into a failure)
    ok = g <= abstol + R * r["gap_scale"] or D.N == 0
    if not ok and pc < 0 and g / -pc <= reltol * (1 + 1e-6) + R * r["gap_scale"] / -pc:
        ok = True
    if not ok and dc > 0 and g / dc <= reltol * (1 + 1e-6) + R * r["gap_scale"] / dc:
        ok = True
    if not ok:
        # objectives at the level of their own rounding error (optimal value 0): the sign the solver saw may differ from
        # the recomputed one, so the criteria are also tried with the objectives moved by their rounding scale
        pcm = pc - R * r["pcost_scale"]
        dcp = dc + R * (r["dcost_scale"] + r["gap_scale"])
        if pcm < 0 and g <= reltol * (1 + 1e-6) * -pcm + R * r["gap_scale"]:
            ok = True
        if dcp > 0 and g <= reltol * (1 + 1e-6) * dcp + R * r["gap_scale"]:
            ok = True
    if not ok:
        msgs.append("no gap criterion holds: gap %.3e abstol %.1e pcost %.6e L(x,y,z) %.6e reltol %.1e" % (
            g, abstol, pc, dc, reltol))
    it = sol.get("iterations")
    if not isinstance(it, int) or isinstance(it, bool) or it < 0 or it > maxiters:
        msgs.append("'iterations' = %r (maxiters %r)" % (it, maxiters))
    return msgs


def chol2_singular(cfg, mat):
    """Predicate of known finding chol2-singular-S: chol2 selected (explicitly or by default) and
    S = P + G'G singular (only A makes the KKT system nonsingular)."""
    dims = mat["dims"]
    pure_l = not dims["q"] and not dims["s"]
    if not (cfg["kkt"] == "chol2" or (cfg["kkt"] is None and pure_l)):
        return False
    S = mat["P"] + mat["Gs"].T @ mat["Gs"]
    sv = np.linalg.svd(S, compute_uv=False)
    return bool(sv[-1] <= 1e-9 * max(1.0, sv[0]))


def oracle(case, stats=None):
    prob, cfg = case["prob"], case["cfg"]
    mat = qp_data(prob)
    dims = mat["dims"]
    N = rc.cdim(dims)
    labels = ["entry:" + cfg["entry"], "kkt:" + str(cfg["kkt"]), "form:" + cfg["form"],
              "init:" + ("+".join(cfg["init"]) if cfg["init"] else "none"),
              "rankP:%s" % ("full" if mat["rankP"] == mat["n"] else "deficient"), "cone:" + ("none" if N == 0 else "some")]
    if not mat["qp_rank_ok"]:
        if stats is not None:
            stats.evaluated(case, False, labels + ["skipped:rank_deficient"])
        return
    if KNOWN["chol2-singular-S"] and chol2_singular(cfg, mat):
        if stats is not None:
            stats.exclude("chol2-singular-S")
        return
    try:
        sol = call_qp(cfg, mat)
    except Exception as e:
        if stats is not None:
            stats.evaluated(case, False, labels + ["raised:" + type(e).__name__])
        return
    status = sol["status"]
    labels.append("status:" + status)
    nontrivial = False
    if status == "optimal":
        D = judge.Data(mat["q"], mat["G"], mat["h"], mat["A"], mat["b"], dims, P=mat["P"], q=mat["q"])
        v, msgs = judge.unpack_solution(sol, dims, "coneqp")
        feastol, abstol, reltol, maxiters = runlp.effective_tols(cfg)
        msgs += judge_optimal_qp(D, sol, v, feastol, abstol, reltol, maxiters)
        if msgs:
            raise Violation("status 'optimal' (%s, kkt=%s, form=%s) but: %s" % (
                cfg["entry"], cfg["kkt"], cfg["form"], "; ".join(msgs[:4])))
        it = sol.get("iterations", 0)
        big = any(m >= 2 for m in dims["q"]) or any(m >= 2 for m in dims["s"])
        nontrivial = (it >= 1 and (mat["rankP"] < mat["n"] or big)) or (N == 0 and mat["p"] >= 1)
    if stats is not None:
        stats.evaluated(case, nontrivial, labels)


def search(ctx, stats):
    for k in KNOWN:
        KNOWN[k] = ctx.known_active(k)
    n = ctx.n(20000, 400000)
    v = run_given(case_strategy(), lambda c: oracle(c, stats), ctx.seed, n, stats)
    return [v] if v else []


def replay(case, part):
    try:
        oracle(case)
    except Violation as v:
        return v.msg
    return None
