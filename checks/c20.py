"""C20 — matrices survive serialisation, copying and buffer exchange unchanged.

parts
  roundtrip   (plain)  one matrix, one way of copying / serialising / importing / exporting it; exact structural equality
  histories   (asan)   export / mutate / alias / copy / release / drop sequences on one dense matrix with a sharing model
"""
import array
import copy
import gc
import io
import pickle
import numpy as np
from hypothesis import strategies as st
from vlib.harness import Violation, run_given

from cvxopt import matrix, spmatrix

SPECIAL_D = [0.0, -0.0, 1.5, -2.5, 1e308, 5e-324, float("inf"), float("-inf"), float("nan"), 3.0, 0.1]
SPECIAL_I = [0, 1, -1, 7, 2 ** 62, -2 ** 63, 2 ** 63 - 1, -12345]


def dval(tc):
    if tc == "i":
        return st.sampled_from(SPECIAL_I)
    if tc == "d":
        return st.sampled_from(SPECIAL_D)
    return st.tuples(st.sampled_from(SPECIAL_D), st.sampled_from(SPECIAL_D)).map(list)


def dec(tc, v):
    return complex(v[0], v[1]) if tc == "z" else v


@st.composite
def dense_st(draw, tcs="idz"):
    tc = draw(st.sampled_from(tcs))
    m, n = draw(st.integers(0, 4)), draw(st.integers(0, 4))
    return dict(kind="dense", tc=tc, m=m, n=n, v=[draw(dval(tc)) for _ in range(m * n)])


@st.composite
def sparse_st(draw):
    tc = draw(st.sampled_from("dz"))
    m, n = draw(st.integers(0, 4)), draw(st.integers(0, 4))
    cells = [(i, j) for j in range(n) for i in range(m)]
    chosen = draw(st.lists(st.sampled_from(cells), unique=True, max_size=8)) if cells else []
    return dict(kind="sparse", tc=tc, m=m, n=n, I=[c[0] for c in chosen], J=[c[1] for c in chosen], V=[draw(dval(tc)) for _ in chosen])


def build(s):
    if s["kind"] == "dense":
        X = matrix([dec(s["tc"], v) for v in s["v"]], (s["m"], s["n"]), s["tc"])
    else:
        X = spmatrix([dec(s["tc"], v) for v in s["V"]], s["I"], s["J"], (s["m"], s["n"]), s["tc"])
    # the matrices the round trips start from are what was asked for (this constructor form is also the one that
    # __reduce__ uses to rebuild a matrix, for empty matrices too)
    if X.typecode != s["tc"] or X.size != (s["m"], s["n"]):
        raise Violation("%s(values, size=%r, tc=%r) returned a %r matrix of size %r" % (
            "matrix" if s["kind"] == "dense" else "spmatrix", (s["m"], s["n"]), s["tc"], X.typecode, X.size))
    return X


def snap(X):
    """complete observable state (bit level for floats: repr distinguishes nan, -0.0)"""
    if isinstance(X, spmatrix):
        return ("sparse", X.typecode, X.size, list(X.I), list(X.J), [repr(v) for v in X.V])
    return ("dense", X.typecode, X.size, [repr(v) for v in X])


def mutate(X):
    """changes X in place (first stored value and, for dense, the last element)"""
    if isinstance(X, spmatrix):
        if len(X) > 0:
            X.V = X.V * 0 + (3.25 if X.typecode == "d" else 3.25 + 1j)
        elif X.size[0] and X.size[1]:
            X[0, 0] = 3.25
        else:
            return False
        return True
    if len(X) == 0:
        return False
    X[0] = 97 if X.typecode == "i" else 97.5
    X[len(X) - 1] = 98 if X.typecode == "i" else 98.5
    return True


COPIES = ["pickle0", "pickle1", "pickle2", "pickle3", "pickle4", "pickle5", "pickle_file", "copy", "deepcopy", "ctor", "pos", "slice", "file",
          "triplets", "deepcopy_nested"]


def make_copy(X, how):
    if how.startswith("pickle") and how != "pickle_file":
        return pickle.loads(pickle.dumps(X, protocol=int(how[6:])))
    if how == "pickle_file":
        f = io.BytesIO()
        pickle.dump(X, f)
        f.seek(0)
        return pickle.load(f)
    if how == "copy":
        return copy.copy(X)
    if how == "deepcopy":
        return copy.deepcopy(X)
    if how == "deepcopy_nested":
        return copy.deepcopy({"a": [X, X]})["a"][1]
    if how == "ctor":
        return matrix(X) if isinstance(X, matrix) else spmatrix(X.V, X.I, X.J, X.size, X.typecode)
    if how == "pos":
        return +X
    if how == "slice":
        return X[:, :]
    if how == "triplets":
        if isinstance(X, matrix):
            return matrix(list(X), X.size, X.typecode)
        V, I, J = pickle.loads(pickle.dumps((X.V, X.I, X.J)))
        return spmatrix(V, I, J, X.size, X.typecode)
    if how == "file":
        if not isinstance(X, matrix):
            # the documented recipe for sparse matrices: V, I, J written one after the other
            f = io.BytesIO()
            X.V.tofile(f)
            X.I.tofile(f)
            X.J.tofile(f)
            f.seek(0)
            V, I, J = matrix(0.0 if X.typecode == "d" else 0j, (len(X), 1), X.typecode), matrix(0, (len(X), 1)), matrix(0, (len(X), 1))
            V.fromfile(f)
            I.fromfile(f)
            J.fromfile(f)
            return spmatrix(V, I, J, X.size, X.typecode)
        f = io.BytesIO()
        X.tofile(f)
        if len(f.getvalue()) != len(X) * {"i": 8, "d": 8, "z": 16}[X.typecode]:
            raise Violation("tofile wrote %d bytes for %d elements of type %r" % (len(f.getvalue()), len(X), X.typecode))
        f.seek(0)
        Y = matrix(0, X.size, X.typecode)
        Y.fromfile(f)
        return Y
    raise ValueError(how)


# ------------------------------------------------------------------ buffer sources

NP_DTYPES = ["int64", "int32", "float64", "complex128", "float32", "int16", "uint8", "bool", "uint64", "longlong", "complex64"]
SUPPORTED = {"int64": "i", "int32": "i", "float64": "d", "complex128": "z"}
ORDER = {"i": 0, "d": 1, "z": 2}


class Exporter:
    """buffer exporter that counts acquisitions and releases (PEP 688)"""

    def __init__(self, obj):
        self.obj, self.gets, self.rels = obj, 0, 0

    def __buffer__(self, flags):
        self.gets += 1
        return memoryview(self.obj)

    def __release_buffer__(self, view):
        self.rels += 1
        view.release()


@st.composite
def import_st(draw):
    kind = draw(st.sampled_from(["numpy", "numpy", "numpy", "array", "cvxview", "cast", "bytes"]))
    c = dict(src=kind, wrap=draw(st.booleans()), tc=draw(st.sampled_from([None, None, "i", "d", "z"])), seed=draw(st.integers(0, 10 ** 6)))
    if kind == "numpy":
        c.update(dtype=draw(st.sampled_from(NP_DTYPES[:4] * 3 + NP_DTYPES)), shape=draw(st.lists(st.integers(0, 4), min_size=0, max_size=3)),
                 order=draw(st.sampled_from("CF")), steps=[draw(st.sampled_from([1, 1, 2, -1, -2])) for _ in range(3)], transpose=draw(st.booleans()))
    elif kind == "array":
        c.update(code=draw(st.sampled_from(["l", "i", "d", "q", "f", "b", "L"])), n=draw(st.integers(0, 5)))
    elif kind == "cvxview":
        c.update(A=draw(dense_st()))
    elif kind == "cast":
        c.update(fmt=draw(st.sampled_from(["d", "l", "i", "B", "f"])), shape=draw(st.lists(st.integers(1, 3), min_size=1, max_size=3)))
    else:
        c.update(n=draw(st.integers(0, 4)), mutable=draw(st.booleans()))
    return c


def make_source(c):
    rng = np.random.RandomState(c["seed"])
    k = c["src"]
    if k == "numpy":
        shape = tuple(c["shape"])
        big = tuple(max(s, 0) * 2 + 1 for s in shape)
        dt = np.dtype(c["dtype"])
        base = rng.randint(-9, 10, size=big)
        if dt.kind == "c":
            base = base + 1j * rng.randint(-9, 10, size=big)
        if dt.kind == "f":
            base = base / 2.0
        if dt.kind == "u" or dt.kind == "b":
            base = np.abs(base)
        a = np.array(base, dtype=dt, order=c["order"])
        sl = []
        for d, s in enumerate(shape):
            st_ = c["steps"][d]
            sl.append(slice(None, None, st_))
        a = a[tuple(sl)]
        # cut to the requested shape
        a = a[tuple(slice(0, s) for s in shape)]
        if c["transpose"] and a.ndim == 2:
            a = a.T
        return a, a
    if k == "array":
        vals = [int(v) for v in rng.randint(0, 50, size=c["n"])]
        a = array.array(c["code"], [float(v) for v in vals] if c["code"] in "df" else vals)
        return a, np.asarray(a)
    if k == "cvxview":
        A = build(c["A"])
        return memoryview(A), np.asarray(A)
    if k == "cast":
        n = int(np.prod(c["shape"]))
        size = {"d": 8, "l": 8, "i": 4, "B": 1, "f": 4}[c["fmt"]]
        raw = bytearray(n * size)
        arr = np.frombuffer(raw, dtype={"d": "float64", "l": "int64", "i": "int32", "B": "uint8", "f": "float32"}[c["fmt"]])
        arr[:] = rng.randint(0, 9, size=n)
        mv = memoryview(raw).cast("B").cast(c["fmt"], shape=c["shape"])
        return mv, np.asarray(mv)
    raw = bytes(range(c["n"]))
    return (bytearray(raw) if c["mutable"] else raw), np.frombuffer(raw, dtype="uint8")


def import_oracle(c, stats):
    src, ref = make_source(c)
    fmt = memoryview(src).format if not isinstance(src, memoryview) else src.format
    src_tc = {"l": "i", "i": "i", "d": "d", "Zd": "z"}.get(fmt)
    ndim = ref.ndim
    want_tc = c["tc"] or src_tc
    ok = src_tc is not None and ndim in (1, 2) and ORDER[src_tc] <= ORDER[want_tc]
    obj = Exporter(src) if c["wrap"] else src
    what = "matrix(%s buffer format=%r shape=%r strides=%r%s)" % (c["src"], fmt, ref.shape, getattr(ref, "strides", None), ", tc=%r" % c["tc"] if c["tc"] else "")
    try:
        M = matrix(obj, tc=c["tc"]) if c["tc"] else matrix(obj)
        err = None
    except (TypeError, ValueError) as e:
        M, err = None, e
    except Exception as e:   # noqa
        raise Violation("%s raised %s: %s" % (what, type(e).__name__, e))
    if c["wrap"] and obj.gets != obj.rels:
        raise Violation("%s: the buffer was acquired %d time(s) but released %d time(s)%s" % (what, obj.gets, obj.rels, " (call raised %s)" % err if err else ""))
    if ok:
        if err is not None:
            raise Violation("%s was refused: %s" % (what, err))
        exp_size = (ref.shape[0], 1) if ndim == 1 else ref.shape
        if M.size != tuple(exp_size) or M.typecode != want_tc:
            raise Violation("%s: size %r typecode %r, expected %r %r" % (what, M.size, M.typecode, tuple(exp_size), want_tc))
        r2 = ref.reshape(exp_size) if ndim == 1 else ref
        for j in range(exp_size[1]):
            for i in range(exp_size[0]):
                e = r2[i, j]
                e = int(e) if want_tc == "i" else (float(e) if want_tc == "d" else complex(e))
                if repr(M[i, j]) != repr(e):
                    raise Violation("%s: element (%d,%d) = %r, source has %r" % (what, i, j, M[i, j], e))
        # independent copy
        if len(M) and isinstance(src, np.ndarray) and src.flags.writeable:
            before = snap(M)
            src[...] = 0
            if snap(M) != before:
                raise Violation("%s: the new matrix shares memory with its source" % what)
    else:
        if err is None:
            # numbers / sequences are legitimate other readings of some sources (e.g. array.array is also a sequence)
            if (src_tc is None and c["src"] in ("array", "bytes")) or ndim == 0:
                pass          # a 0-d array is also a number: matrix() may read it as a scalar
            else:
                raise Violation("%s was accepted (size %r, typecode %r) although format/dimension/typecode are not importable" % (what, M.size, M.typecode))
    if stats is not None:
        stats.evaluated(c, bool(ok and ref.size >= 2), ["import:" + c["src"], "import_ok:%r" % ok])


# ------------------------------------------------------------------ roundtrip part

@st.composite
def tall_sparse_st(draw):
    """very tall sparse matrices are cheap (storage is O(columns + entries)): row counts beyond 2^31"""
    tc = draw(st.sampled_from("dz"))
    m = draw(st.sampled_from([2 ** 31, 2 ** 31 + 5, 2 ** 32 + 3, 2 ** 40 + 1]))
    n = draw(st.integers(1, 3))
    cells = [(i, j) for j in range(n) for i in (0, 1, 2, m - 1)]
    chosen = draw(st.lists(st.sampled_from(cells), unique=True, max_size=6))
    return dict(kind="sparse", tc=tc, m=m, n=n, I=[c[0] for c in chosen], J=[c[1] for c in chosen], V=[draw(dval(tc)) for _ in chosen],
                tall=True)


@st.composite
def roundtrip_st(draw):
    what = draw(st.sampled_from(["copy", "copy", "copy", "import", "import", "export", "shortfile"]))
    if what in ("copy",):
        X = draw(st.one_of(dense_st(), dense_st(), dense_st(), sparse_st(), sparse_st(), sparse_st(), tall_sparse_st()))
        hows = COPIES if not X.get("tall") else [h for h in COPIES if h != "slice"]
        return dict(what=what, X=X, how=draw(st.sampled_from(hows)))
    if what == "import":
        return dict(what=what, imp=draw(import_st()))
    if what == "export":
        return dict(what=what, X=draw(dense_st()), k=draw(st.integers(0, 15)))
    return dict(what=what, X=draw(dense_st()), cut=draw(st.integers(1, 9)))


def roundtrip_oracle(c, stats=None):
    w = c["what"]
    if w == "import":
        return import_oracle(c["imp"], stats)
    X = build(c["X"])
    s0 = snap(X)
    labels = ["what:" + w, "kind:" + c["X"]["kind"], "tc:" + c["X"]["tc"]]
    nontrivial = False
    if w == "copy":
        how = c["how"]
        labels.append("how:" + how)
        try:
            Y = make_copy(X, how)
        except Violation:
            raise
        except Exception as e:   # noqa
            raise Violation("%s of a %s %r matrix of size %r raised %s: %s" % (how, c["X"]["kind"], c["X"]["tc"], X.size, type(e).__name__, e))
        if type(Y) is not type(X):
            raise Violation("%s returned a %s for a %s" % (how, type(Y).__name__, type(X).__name__))
        if snap(Y) != s0:
            raise Violation("%s does not reproduce the matrix: %r, original %r" % (how, snap(Y), s0))
        if snap(X) != s0:
            raise Violation("%s modified the original" % how)
        if Y is X:
            raise Violation("%s returned the same object" % how)
        if mutate(Y):
            if snap(X) != s0:
                raise Violation("after %s, changing the copy changed the original" % how)
            s1 = snap(Y)
            mutate(X)
            X[0 if isinstance(X, matrix) else (0, 0)] = 5
            if snap(Y) != s1:
                raise Violation("after %s, changing the original changed the copy" % how)
            nontrivial = True
    elif w == "export":
        m = memoryview(X)
        isz = {"i": 8, "d": 8, "z": 16}[X.typecode]
        if (m.format, m.ndim, tuple(m.shape), m.itemsize, m.readonly) != ({"i": "l", "d": "d", "z": "Zd"}[X.typecode], 2, X.size, isz, False):
            raise Violation("memoryview(A): format %r ndim %r shape %r itemsize %r readonly %r for a %r matrix of size %r"
                            % (m.format, m.ndim, m.shape, m.itemsize, m.readonly, X.typecode, X.size))
        if len(X) and tuple(m.strides) != (isz, isz * X.size[0]):
            raise Violation("memoryview(A): strides %r, expected column-major %r" % (m.strides, (isz, isz * X.size[0])))
        a = np.asarray(X)
        if a.shape != X.size:
            raise Violation("numpy.asarray(A).shape = %r" % (a.shape,))
        for j in range(X.size[1]):
            for i in range(X.size[0]):
                if repr(X[i, j]) != repr(a[i, j].item()):
                    raise Violation("numpy.asarray(A)[%d,%d] = %r, A has %r" % (i, j, a[i, j].item(), X[i, j]))
        if len(X):
            k = c["k"] % len(X)
            i, j = k % X.size[0], k // X.size[0]
            a[i, j] = 41
            if X[k] != 41:
                raise Violation("writing through the exported buffer is not visible in the matrix")
            X[k] = 42
            if a[i, j] != 42 or np.asarray(m)[i, j] != 42:
                raise Violation("writing to the matrix is not visible through the exported buffer")
            nontrivial = True
        del a
        m.release()
    else:   # short file: fromfile must refuse and leave the matrix alone
        n = len(X) * {"i": 8, "d": 8, "z": 16}[X.typecode]
        if n:
            f = io.BytesIO(b"\x01" * max(n - c["cut"], 0))
            try:
                X.fromfile(f)
            except (EOFError, IOError, ValueError, TypeError):
                pass
            else:
                raise Violation("fromfile accepted a file that is %d bytes short" % min(c["cut"], n))
            if snap(X) != s0:
                raise Violation("fromfile refused a short file but modified the matrix")
            nontrivial = True
    if stats is not None:
        stats.evaluated(c, nontrivial, labels)


# ------------------------------------------------------------------ histories

OPS = ["view", "view", "npview", "set", "set", "iop", "viewset", "copy", "mutcopy", "resize", "alias", "release", "drop", "fromfile", "badiop", "churn"]


@st.composite
def history_st(draw):
    tc = draw(st.sampled_from("idz"))
    m, n = draw(st.integers(1, 4)), draw(st.integers(1, 4))
    X = dict(kind="dense", tc=tc, m=m, n=n, v=[draw(dval(tc)) for _ in range(m * n)])
    steps = []
    for _ in range(draw(st.integers(3, 12))):
        op = draw(st.sampled_from(OPS))
        steps.append(dict(op=op, k=draw(st.integers(0, 63)), val=draw(dval(tc)), how=draw(st.sampled_from(COPIES)),
                          iop=draw(st.sampled_from(["+=", "-=", "*=", "%=", "/="]))))
    return dict(X=X, steps=steps)


def flat(a):
    """column-major element list of a numpy array / memoryview, as reprs"""
    a = np.asarray(a)
    return [repr(x.item()) for x in a.flatten(order="F")]


def history_oracle(c, stats=None):
    tc = c["X"]["tc"]
    A = build(c["X"])
    holders = [A]              # names bound to the one object
    views = []                 # exported buffers (memoryview or numpy array) that must show the current content
    copies = []                # (object, snapshot)
    model = [repr(v) for v in A]
    done = []
    nmut = 0

    def check(when):
        if holders:
            cur = [repr(v) for v in holders[0]]
            if cur != model:
                raise Violation("%s: matrix content %r, expected %r (history %r)" % (when, cur, model, done))
        for v in views:
            if flat(v) != model:
                raise Violation("%s: an exported buffer shows %r, the matrix holds %r (history %r)" % (when, flat(v), model, done))
        for Y, s in copies:
            if snap(Y) != s:
                raise Violation("%s: an independent copy changed: %r, expected %r (history %r)" % (when, snap(Y), s, done))

    for s in c["steps"]:
        op = s["op"]
        A = holders[0] if holders else None
        val = dec(tc, s["val"])
        if op in ("set", "iop", "resize", "alias", "copy", "fromfile", "badiop", "view", "npview") and A is None:
            continue
        if op in ("view", "npview"):
            v = memoryview(A) if op == "view" else (np.asarray(A) if s["k"] % 2 else np.array(memoryview(A), copy=False))
            isz = {"i": 8, "d": 8, "z": 16}[tc]
            if tuple(v.shape) != A.size or tuple(v.strides) != (isz, isz * A.size[0]):
                raise Violation("a buffer exported now has shape %r strides %r, the matrix has size %r (history %r, %d other export(s) held)"
                                % (tuple(v.shape), tuple(v.strides), A.size, done, len(views)))
            views.append(v)
        elif op == "set":
            k = s["k"] % len(A)
            A[k] = val
            model[k] = repr(A[k])
            if repr(A[k]) != repr(val):
                raise Violation("A[%d] = %r stored %r" % (k, val, A[k]))
            nmut += 1
        elif op == "iop":
            ident = id(A)
            operand = {"i": 3, "d": 1.5, "z": 2 - 1j}[tc]
            if s["iop"] == "%=" and tc == "z":
                continue
            if s["iop"] == "/=" and tc == "i":
                operand = 2
            if s["k"] % 3 == 0 and s["iop"] in ("+=", "-=", "*="):
                # matrix operand: same size for +=/-=, conforming square matrix for *= (refused or done in place, never rebound)
                one = {"i": 1, "d": 1.0, "z": 1 + 0j}[tc]
                operand = matrix(one, A.size if s["iop"] != "*=" else (A.size[1], A.size[1]), tc)
            if s["k"] % 3 == 1 and s["iop"] in ("+=", "-=") and len(A):
                # sparse operand of the same size: A stays a dense matrix of its type ('d' or 'z'), so the operation is
                # in place; for an integer A the result type would change and it is refused
                operand = spmatrix([1.5, -2.0][:min(2, len(A))], [0, A.size[0] - 1][:min(2, len(A))], [0, A.size[1] - 1][:min(2, len(A))],
                                   A.size, "d")
            B = A
            try:
                if s["iop"] == "+=":
                    B += operand
                elif s["iop"] == "-=":
                    B -= operand
                elif s["iop"] == "*=":
                    B *= operand
                elif s["iop"] == "/=":
                    B /= operand
                else:
                    B %= operand
            except (TypeError, ValueError, ArithmeticError, NotImplementedError, OverflowError):
                check("after refused %s" % s["iop"])
                done.append(op + s["iop"] + ":refused")
                continue
            if id(B) != ident or B is not A:
                raise Violation("A %s x rebound the name to a new object" % s["iop"])
            if A.typecode != tc:
                raise Violation("A %s x changed the typecode to %r" % (s["iop"], A.typecode))
            model[:] = [repr(v) for v in A]
            nmut += 1
        elif op == "badiop":
            # result type would differ: must be refused, nothing may change
            if tc == "z":
                continue
            operand = 2.5 if tc == "i" else 1 + 1j
            B = A
            try:
                if s["iop"] in ("+=", "-="):
                    B += operand
                elif s["iop"] == "*=":
                    B *= operand
                elif s["iop"] == "/=":
                    B /= operand
                elif tc == "i":
                    B %= operand
                else:
                    continue
            except (TypeError, ValueError, NotImplementedError):
                pass
            else:
                if B is A and A.typecode != tc:
                    raise Violation("A %s %r changed the typecode of A in place to %r" % (s["iop"], operand, A.typecode))
                if B is not A:
                    # Python rebinding of a local name is harmless; the shared object must be unchanged
                    pass
        elif op == "viewset":
            ws = [v for v in views if isinstance(v, np.ndarray)]
            if not ws:
                continue
            v = ws[s["k"] % len(ws)]
            k = s["k"] % len(model)
            v[k % v.shape[0], k // v.shape[0]] = val
            model[k] = repr(v[k % v.shape[0], k // v.shape[0]].item())
            nmut += 1
        elif op == "copy":
            try:
                Y = make_copy(A, s["how"])
            except Violation:
                raise
            except Exception as e:   # noqa
                raise Violation("%s raised %s: %s" % (s["how"], type(e).__name__, e))
            if [repr(v) for v in Y] != model:
                raise Violation("%s does not reproduce the matrix" % s["how"])
            copies.append((Y, snap(Y)))
        elif op == "mutcopy":
            if not copies:
                continue
            i = s["k"] % len(copies)
            Y = copies[i][0]
            Y[s["k"] % len(Y)] = val
            copies[i] = (Y, snap(Y))
        elif op == "resize":
            L = len(A)
            divs = [d for d in range(1, L + 1) if L % d == 0]
            d = divs[s["k"] % len(divs)]
            A.size = (d, L // d)
        elif op == "alias":
            B = A
            holders.append(B)
            k = s["k"] % len(B)
            B[k] = val
            model[k] = repr(B[k])
            nmut += 1
        elif op == "release":
            if views:
                v = views.pop(s["k"] % len(views))
                if isinstance(v, memoryview):
                    v.release()
                del v
        elif op == "drop":
            if not views:
                continue
            holders[:] = []
            A = B = None
            gc.collect()
        elif op == "fromfile":
            isz = {"i": 8, "d": 8, "z": 16}[tc]
            other = matrix([val] * len(A), A.size, tc)
            f = io.BytesIO()
            other.tofile(f)
            f.seek(0)
            A.fromfile(f)
            model[:] = [repr(val if tc != "i" else int(val))] * len(model)
            model[:] = [repr(v) for v in other]
            nmut += 1
        elif op == "churn":
            junk = [matrix(1.0, (3, 3)) for _ in range(20)]
            del junk
            gc.collect()
        done.append(op)
        check("after %s" % op)
    for v in views:
        if isinstance(v, memoryview):
            v.release()
    if stats is not None:
        stats.evaluated(c, nmut >= 2 and ("view" in done or "npview" in done), ["steps:%d" % min(len(done), 12)] + ["h:" + d for d in set(done)])


@st.composite
def sphistory_st(draw):
    X = draw(sparse_st())
    steps = []
    for _ in range(draw(st.integers(2, 8))):
        steps.append(dict(op=draw(st.sampled_from(["iadd", "iadd", "isub", "imul", "idiv", "set", "setV", "copy", "mutcopy", "iadd_dense"])),
                          B=draw(sparse_st()), k=draw(st.integers(0, 63)), how=draw(st.sampled_from(COPIES)), val=draw(st.sampled_from([1.5, -2.0, 0.0, 3.0]))))
    return dict(sparse=True, X=X, steps=steps)


def sphistory_oracle(c, stats=None):
    """in-place operators, element assignment and V assignment on a sparse matrix act on the one shared object;
    copies stay independent"""
    S = build(c["X"])
    T = S                                  # plain assignment: an alias
    ident = id(S)
    tc = S.typecode
    copies, done, nmut = [], [], 0
    for s in c["steps"]:
        op = s["op"]
        B = build(dict(s["B"], m=c["X"]["m"], n=c["X"]["n"], I=[i % max(c["X"]["m"], 1) for i in s["B"]["I"]],
                       J=[j % max(c["X"]["n"], 1) for j in s["B"]["J"]])) if c["X"]["m"] * c["X"]["n"] else build(dict(c["X"]))
        if B.typecode == "z" and tc == "d":
            B = B.real()
        before = snap(T)
        try:
            if op == "iadd":
                S += B
            elif op == "isub":
                S -= B
            elif op == "imul":
                S *= 2.0
            elif op == "idiv":
                S /= 2.0
            elif op == "iadd_dense":
                S += matrix(B)
            elif op == "set":
                if not (S.size[0] and S.size[1]):
                    continue
                k = s["k"] % (S.size[0] * S.size[1])
                S[k % S.size[0], k // S.size[0]] = s["val"]
            elif op == "setV":
                S.V = s["val"]
            elif op == "copy":
                Y = make_copy(S, s["how"])
                if snap(Y) != snap(S):
                    raise Violation("%s does not reproduce the sparse matrix" % s["how"])
                copies.append((Y, snap(Y)))
            else:
                if not copies:
                    continue
                Y = copies[s["k"] % len(copies)][0]
                if mutate(Y):
                    copies[s["k"] % len(copies)] = (Y, snap(Y))
        except Violation:
            raise
        except (TypeError, ValueError, NotImplementedError, ArithmeticError) as e:
            if S is not T or snap(T) != before:
                raise Violation("refused %s (%s) changed the matrix or rebound the name" % (op, e))
            done.append(op + ":refused")
            continue
        if op in ("iadd", "isub", "imul", "idiv", "set", "setV", "iadd_dense"):
            if S is not T or id(S) != ident:
                raise Violation("sparse %s returned a new object instead of updating the matrix in place (history %r, stored entries before: %d); "
                                "other references to the matrix no longer see the update" % (op, done, len(before[3])))
            nmut += 1
        done.append(op)
        for Y, sn in copies:
            if snap(Y) != sn:
                raise Violation("a copy of the sparse matrix changed after %s (history %r)" % (op, done))
    if stats is not None:
        stats.evaluated(c, nmut >= 2, ["sph:" + d for d in set(done)])


def search(ctx, stats):
    if ctx.part == "histories":
        both = st.one_of(history_st(), history_st(), sphistory_st())
        v = run_given(both, lambda c: (sphistory_oracle if c.get("sparse") else history_oracle)(c, stats), ctx.seed, ctx.n(12000, 400000), stats, journal=ctx.journal)
    else:
        v = run_given(roundtrip_st(), lambda c: roundtrip_oracle(c, stats), ctx.seed, ctx.n(80000, 2500000), stats, journal=ctx.journal)
    return [v] if v else []


def replay(case, part=None):
    try:
        if part == "histories":
            (sphistory_oracle if case.get("sparse") else history_oracle)(case)
        else:
            roundtrip_oracle(case)
    except Violation as v:
        return v.msg
    return None
