"""C11 — modeling expressions evaluate to what their formula says."""
import numpy as np
from hypothesis import strategies as st
from vlib.harness import Violation, run_given, run_fuzz
from vlib import ref_model as rm

from cvxopt import matrix
from cvxopt import modeling as M
from cvxopt.modeling import variable

KNOWN = {}


@st.composite
def case_strategy(draw):
    nv = draw(st.integers(1, 3))
    lens = [draw(st.integers(1, 4)) for _ in range(nv)]
    if draw(st.integers(0, 9)) == 0:
        tree = draw(rm.invalid_tree(lens))
        expect = "invalid"
    else:
        L = draw(st.sampled_from([1, 2, 3, draw(st.sampled_from(lens))]))
        curv = draw(st.sampled_from(["affine", "affine", "convex", "convex", "concave"]))
        tree = draw(rm.gen(lens, L, curv, draw(st.integers(1, 4))))
        expect = "valid"
    vals = [[[draw(st.sampled_from(rm.DY)) for _ in range(l)] for l in lens] for _ in range(3)]
    return dict(lens=lens, tree=tree, expect=expect, vals=vals, sparse=draw(st.booleans()),
                mut=draw(st.sampled_from(["imul", "iadd", "isub", "idiv"])), none_var=draw(st.integers(0, nv - 1)))


def fval(f):
    try:
        v = f.value()
    except Exception as e:
        raise Violation("f.value() raised %s: %s" % (type(e).__name__, e))
    return None if v is None else np.array(list(v), dtype=float)


def count_shapes(t):
    """number of occurrences of each variable (for the non-triviality rule)."""
    occ = {}

    def walk(u):
        if u[0] == "var":
            occ[u[1]] = occ.get(u[1], 0) + 1
        elif u[0] in ("max", "min"):
            for a in u[1]:
                walk(a)
        else:
            for a in u[1:]:
                if isinstance(a, list) and a and isinstance(a[0], str):
                    walk(a)
    walk(t)
    return occ


def oracle(case, stats=None):
    lens, tree = case["lens"], case["tree"]
    xs = [variable(l, "x%d" % i) for i, l in enumerate(lens)]
    vals = [[np.array(v, dtype=float) for v in vs] for vs in case["vals"]]
    flags = dict(sparse=case["sparse"], record=[], consumed=set())
    try:
        L, curv, ref0 = rm.evaluate(tree, lens, vals[0])
        ref_ok = True
    except rm.Invalid as e:
        ref_ok = False
        why = str(e)
    try:
        f = rm.build(tree, xs, flags)
        built = True
    except Exception as e:
        built = False
        exc = e
    labels = ["expect:" + case["expect"]]
    if not ref_ok:
        if built and isinstance(f, (M._function, variable)):
            raise Violation("expression ruled out by the documented rules (%s) was accepted: %r" % (why, tree))
        if stats is not None:
            stats.evaluated(case, False, labels + ["refused:" + (type(exc).__name__ if not built else "nonfunction")])
        return
    if not built:
        raise Violation("valid expression (length %d, %s) refused with %s: %s -- tree %r" % (L, curv, type(exc).__name__, exc, tree))
    if isinstance(f, variable):
        f = +f
    if not isinstance(f, M._function):
        raise Violation("expression evaluates to %s, not a function" % type(f).__name__)
    if len(f) != L:
        raise Violation("len(f) = %d, the broadcasting rule gives %d -- tree %r" % (len(f), L, tree))
    # value() is None while a variable of f has no value
    if fval(f) is not None and f.variables():
        raise Violation("f.value() is not None although no variable has a value")
    tv = rm.tree_vars(tree)
    fv = f.variables()
    for v in fv:
        if not any(v is xs[k] for k in tv):
            raise Violation("f.variables() contains a variable that does not occur in the expression")
    for vs in vals:
        for x, v in zip(xs, vs):
            x.value = matrix(v.tolist(), (len(v), 1), "d")
        _, _, ref = rm.evaluate(tree, lens, vs)
        got = fval(f)
        if got is None:
            raise Violation("f.value() is None although every variable has a value")
        if got.shape != ref.shape or not np.array_equal(got, ref):
            raise Violation("f.value() = %r but the formula gives %r (x = %r) -- tree %r" % (
                got.tolist(), ref.tolist(), [v.tolist() for v in vs], tree))
    # operands are not modified by the operations they take part in: every sub-expression object that was built on
    # the way (and not legitimately updated by an in-place operator) still evaluates to its own formula
    for x, v in zip(xs, vals[0]):
        x.value = matrix(v.tolist(), (len(v), 1), "d")
    for sub, obj in flags["record"]:
        if obj is f or id(obj) in flags["consumed"] or not isinstance(obj, (M._function, variable)):
            continue
        try:
            _, _, rsub = rm.evaluate(sub, lens, vals[0])
        except rm.Invalid:
            continue
        gsub = fval(obj if isinstance(obj, M._function) else +obj)
        if gsub is None or gsub.shape != rsub.shape or not np.array_equal(gsub, rsub):
            raise Violation("after building %r its operand %r evaluates to %r, its own formula gives %r: an operation modified its operand"
                            % (tree, sub, None if gsub is None else gsub.tolist(), rsub.tolist()))
    # None-ness tracks exactly the variables of f
    k = case["none_var"]
    xs[k].value = None
    if (fval(f) is None) != any(v is xs[k] for v in fv):
        raise Violation("f.value() None-ness wrong after clearing the value of x%d (in f.variables(): %r)" % (
            k, any(v is xs[k] for v in fv)))
    xs[k].value = matrix(vals[0][k].tolist(), (lens[k], 1), "d")
    # curvature: accepted as convex / affine <=> reference curvature
    def accepted(fn):
        try:
            fn()
            return True
        except TypeError:
            return False
    is_cvx = accepted(lambda: f <= 0.0)
    is_ccv = accepted(lambda: -f <= 0.0)
    is_aff = accepted(lambda: f == 0.0)
    want_cvx = curv in ("const", "affine", "convex")
    want_ccv = curv in ("const", "affine", "concave")
    # soundness is semantic: whatever is accepted as convex / concave / affine must pass the midpoint test
    # on the generated assignments (exact on dyadic data)
    def at(vs_):
        for x, v in zip(xs, vs_):
            x.value = matrix(np.asarray(v, dtype=float).tolist(), (len(v), 1), "d")
        return fval(f)
    pairs = [(0, 1), (0, 2), (1, 2)]
    for (i, j) in pairs:
        fa, fb = at(vals[i]), at(vals[j])
        fm = at([(a + b) / 2.0 for a, b in zip(vals[i], vals[j])])
        avg = (fa + fb) / 2.0
        if is_cvx and np.any(fm > avg + 1e-12):
            raise Violation("accepted as convex (f <= 0) but f((x+y)/2) = %r > (f(x)+f(y))/2 = %r -- tree %r" % (fm.tolist(), avg.tolist(), tree))
        if is_ccv and np.any(fm < avg - 1e-12):
            raise Violation("accepted as concave (-f <= 0) but midpoint test fails -- tree %r" % (tree,))
        if is_aff and not np.array_equal(fm, avg):
            raise Violation("accepted as affine (f == 0) but f((x+y)/2) = %r != (f(x)+f(y))/2 = %r -- tree %r" % (fm.tolist(), avg.tolist(), tree))
    at(vals[0])
    if want_cvx and not is_cvx:
        raise Violation("a %s expression was refused as constraint function f <= 0" % curv)
    if want_ccv and not is_ccv:
        raise Violation("a %s expression was refused as -f <= 0" % curv)
    if curv in ("const", "affine") and not is_aff:
        raise Violation("an affine expression was refused in f == 0")
    # aliasing: '+f' and binary results are new objects; mutating them leaves f alone and vice versa
    g = +f
    if g is f:
        raise Violation("+f returned f itself")
    h = f + 1.0
    before = fval(f)
    mut = case["mut"]
    for obj in (g, h):
        if mut == "imul":
            obj *= 2.0
        elif mut == "iadd":
            obj += 1.0
        elif mut == "isub":
            obj -= 0.5
        else:
            obj /= 4.0
    if not np.array_equal(fval(f), before):
        raise Violation("mutating +f / f+1 in place (%s) changed f: %r -> %r -- tree %r" % (mut, before.tolist(), fval(f).tolist(), tree))
    g2, h2 = +f, f - 2.0
    bg, bh = fval(g2), fval(h2)
    if mut == "imul":
        f *= -2.0
    elif mut == "iadd":
        f += 1.0
    elif mut == "isub":
        f -= 0.5
    else:
        f /= 4.0
    if not (np.array_equal(fval(g2), bg) and np.array_equal(fval(h2), bh)):
        raise Violation("mutating f in place (%s) changed an earlier +f or f-2 -- tree %r" % (mut, tree))
    want = {"imul": -2.0 * before, "iadd": before + 1.0, "isub": before - 0.5, "idiv": before / 4.0}[mut]
    if not np.array_equal(fval(f), want):
        raise Violation("after f %s the value is %r, the formula gives %r -- tree %r" % (
            {"imul": "*= -2", "iadd": "+= 1", "isub": "-= 0.5", "idiv": "/= 4"}[mut], fval(f).tolist(), want.tolist(), tree))
    occ = count_shapes(tree)
    nontrivial = L >= 2 and (max(occ.values() or [0]) >= 2 or curv in ("convex", "concave"))
    if stats is not None:
        stats.evaluated(case, nontrivial, labels + ["curv:" + curv, "len:%d" % min(L, 4)])


def search(ctx, stats):
    for k in KNOWN:
        KNOWN[k] = ctx.known_active(k)
    if ctx.part == "fuzz":
        # same strategy and oracle, driven by libFuzzer on the branch coverage of cvxopt/modeling.py
        v = run_fuzz(case_strategy(), lambda c: oracle(c, stats), ctx.seed, ctx.n(6000, 300000), stats,
                     journal=ctx.journal)
        return [v] if v else []
    v = run_given(case_strategy(), lambda c: oracle(c, stats), ctx.seed, ctx.n(40000, 800000), stats)
    return [v] if v else []


def replay(case, part):
    try:
        oracle(case)
    except Violation as v:
        return v.msg
    return None
