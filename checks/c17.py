"""C17 — BLAS wrappers compute the reference operation on exactly the addressed data."""
import numpy as np
from hypothesis import strategies as st
from vlib.harness import Violation, run_given
from vlib import spec_blas as sb
from vlib.spec_blas import ROUTINES, ACCEPT, REJECT, OPEN

from cvxopt import matrix, blas

NAMES = sorted(ROUTINES)
DIMS = ("m", "n", "k", "kl", "ku")


def cnum(v):
    return complex(v[0], v[1]) if isinstance(v, list) else v


# ------------------------------------------------------------------ generation

class _Plan(sb.Call):
    """Call used to obtain the operand shapes of a fully explicit call"""

    def __init__(self, f, tc, kw):
        self.case = None
        self.f, self.tc, self.kw = f, tc, kw
        self.size = _Any()
        self.len = _Any()
        self.P = {"len": self.len}


class _Any(dict):
    def __missing__(self, k):
        return (0, 0)


@st.composite
def case_strategy(draw, only=None):
    f = draw(st.sampled_from(only or NAMES))
    R = ROUTINES[f]
    tc = draw(st.sampled_from(R["tcs"]))
    kw = {}
    for fl, (rc, zc) in R["flags"].items():
        if draw(st.integers(0, 3)) > 0:
            kw[fl] = draw(st.sampled_from(rc if tc == "d" else zc))
    dim = st.sampled_from([0, 1, 2, 2, 3, 3, 4])
    names = list(R["kws"]) + list(R["intpos"])
    dims = {}
    for d in DIMS:
        if d in names:
            dims[d] = draw(st.integers(0, 2)) if d in ("kl", "ku") else (draw(st.integers(0, 3)) if (d == "k" and "b" in f[:2] + f[1:2] and f in ("sbmv", "hbmv", "tbmv", "tbsv")) else draw(dim))
    # shapes of the operands for these dimensions
    plan_kw = dict(kw)
    plan_kw.update(dims)
    for n_ in names:
        if n_.startswith("ld"):
            plan_kw[n_] = 1 << 20
    ops, _ = R["build"](_Plan(f, tc, plan_kw))
    natural = draw(st.booleans())
    size, tcs = {}, {}
    for o in ops:
        tcs[o.name] = tc
        if o.kind == "vec":
            key_inc = ("inc" + o.name) if ("inc" + o.name) in names else "inc"
            key_off = ("offset" + o.name) if ("offset" + o.name) in names else "offset"
            if natural:
                inc, off, pad = 1, 0, 0
            else:
                inc = draw(st.sampled_from([1, 1, 2, 3] if o.positive_inc else [1, 2, 3, -1, -2, -1, 2]))
                off, pad = draw(st.integers(0, 3)), draw(st.integers(0, 2))
            L = (off + 1 + (o.n - 1) * abs(inc) if o.n > 0 else draw(st.integers(0, 2))) + pad
            if natural and o.n > 0 and draw(st.integers(0, 5)) == 0:
                L += draw(st.integers(1, 2))           # default length differs
            size[o.name] = [L, 1] if draw(st.integers(0, 3)) else [1, L]
            kw[key_inc], kw[key_off] = inc, off
        else:
            br = o.block_rows()
            o.ld = 0
            ldmin = o.ld_min()
            if natural:
                ld, off = ldmin, 0
                size[o.name] = [br, max(o.cols, 0)]
            else:
                ld = ldmin + draw(st.integers(0, 2))
                off, pad = draw(st.integers(0, 3)), draw(st.integers(0, 3))
                need = 0 if o.empty() else off + (o.cols - 1) * ld + br
                if draw(st.booleans()):
                    cols = -(-(need + pad) // ld)
                    size[o.name] = [ld, cols]
                else:
                    size[o.name] = [need + pad, 1]
            kw["ld" + o.name], kw["offset" + o.name] = ld, off
    kw.update(dims)
    # omit optional arguments (documented defaults apply)
    omit_p = draw(st.sampled_from([0, 2, 4] if natural else [0, 0, 8]))
    for k_ in list(kw):
        if k_ in R["intpos"] or k_ in R["flags"]:
            continue
        if omit_p and draw(st.integers(1, omit_p)) == 1:
            if natural or k_.startswith(("inc", "offset", "ld")) or draw(st.booleans()):
                del kw[k_]
        elif k_ in DIMS and draw(st.integers(0, 11)) == 0:
            kw[k_] = -1                                 # explicit "use the default"
        elif k_.startswith("ld") and draw(st.integers(0, 11)) == 0:
            kw[k_] = 0
    case = dict(f=f, tc=tc, kw=kw, size=size, tcs=tcs, seed=draw(st.integers(0, 2 ** 16)))
    for sc in ("alpha", "beta"):
        if R[sc] and draw(st.integers(0, 4)) > 0:
            real = st.sampled_from([0.0, 1.0, -1.0, 0.5, 2.0, -1.5, 1, 0, -2])
            if R[sc] == "num" and tc == "z" and draw(st.booleans()):
                case[sc] = [draw(st.sampled_from([0.0, 0.5, -1.0, 2.0])), draw(st.sampled_from([1.0, -0.5, 2.0]))]
            else:
                case[sc] = draw(real)
    # negative classes
    if draw(st.integers(0, 3)) == 0:
        mut = draw(st.sampled_from(["short", "short", "ld", "off", "inc", "tc", "flag", "scalar", "dim"]))
        onames = sorted(size)
        o = draw(st.sampled_from(onames))
        case["mut"] = mut
        if mut == "short":
            c_, why, ops2, _ = sb.resolve(case)
            if ops2:
                oo = [x for x in ops2 if x.name == o][0]
                nd = oo.need()
                if nd > 0:
                    case["size"][o] = [nd - 1 - draw(st.integers(0, 1)) * draw(st.integers(0, 1)), 1]
                    if case["size"][o][0] < 0:
                        case["size"][o][0] = 0
        elif mut == "ld" and ("ld" + o) in names:
            oo = [x for x in ops if x.name == o][0]
            kw["ld" + o] = max(oo.ld_min() - 1, -1) if draw(st.booleans()) else oo.ld_min() - 1
            if kw["ld" + o] == 0:
                kw["ld" + o] = -1
        elif mut == "off":
            key = ("offset" + o) if ("offset" + o) in names else "offset"
            kw[key] = -draw(st.integers(1, 2))
        elif mut == "inc":
            key = ("inc" + o) if ("inc" + o) in names else ("inc" if "inc" in names else None)
            if key:
                kw[key] = draw(st.sampled_from([0, 0, -1]))
        elif mut == "tc":
            case["tcs"][o] = draw(st.sampled_from(["i", "z" if tc == "d" else "d"]))
        elif mut == "flag" and R["flags"]:
            fl = draw(st.sampled_from(sorted(R["flags"])))
            kw[fl] = draw(st.sampled_from(["X", "C", "T", "l", "R"]))
        elif mut == "scalar":
            sc = draw(st.sampled_from(["alpha", "beta"]))
            if R[sc] and not (f == "herk" and sc == "beta"):
                case[sc] = [0.5, 1.0]
        elif mut == "dim":
            ds = [d for d in DIMS if d in kw and kw[d] >= 0]
            if ds:
                d = draw(st.sampled_from(ds))
                kw[d] += draw(st.integers(1, 2))
    return case


# ------------------------------------------------------------------ data

def fill(case, ops, cls):
    """numpy buffers: nice values on the footprints, large junk everywhere else"""
    rng = np.random.RandomState(case["seed"])
    R = ROUTINES[case["f"]]
    bufs = {}
    for name, (r, c_) in case["size"].items():
        L = r * c_
        t = case["tcs"][name]
        if t == "i":
            bufs[name] = rng.randint(-3, 4, size=L).astype(np.int64)
            continue
        junk = (rng.randint(1, 9, size=L) * 1e5 + rng.randint(0, 1000, size=L)) * rng.choice([-1.0, 1.0], size=L)
        if cls != ACCEPT:
            junk = rng.randint(-16, 17, size=L) / 8.0
        if t == "z":
            j2 = (rng.randint(1, 9, size=L) * 1e5 + rng.randint(0, 1000, size=L)) * rng.choice([-1.0, 1.0], size=L)
            if cls != ACCEPT:
                j2 = rng.randint(-16, 17, size=L) / 8.0
            bufs[name] = junk + 1j * j2
        else:
            bufs[name] = junk.astype(float)
    if cls != ACCEPT or ops is None:
        return bufs
    for o in ops:
        b = bufs[o.name]
        z = b.dtype == complex
        ents = o.entries() if o.kind == "mat" else [((i, i), f_) for i, f_ in enumerate(o.footprint())]
        for (i, j), f_ in ents:
            v = rng.randint(-16, 17) / 8.0
            if z:
                v = v + 1j * (rng.randint(-16, 17) / 8.0)
            if o.kind == "mat" and i == j and o.struct in ("tri", "tb") and R["solve"]:
                v = (1.0 + rng.randint(0, 9) / 8.0) * rng.choice([-1.0, 1.0]) + (1j * (rng.randint(-8, 9) / 8.0) if z else 0.0)
            if o.kind == "mat" and i == j and o.struct in ("herm", "hb") and z:
                if "w" in o.mode:
                    v = v.real + 0j
                else:
                    v = v.real + 1j * b[f_].imag         # junk: "imaginary parts of the diagonal are assumed zero"
            b[f_] = v
    return bufs


def to_cvx(buf, size, tc):
    if tc == "i":
        return matrix([int(v) for v in buf], tuple(size), "i")
    if tc == "z":
        return matrix([complex(v) for v in buf], tuple(size), "z")
    return matrix([float(v) for v in buf], tuple(size), "d")


def back(M):
    return list(M)


# ------------------------------------------------------------------ oracle

def describe(case):
    return "blas.%s(%s; %s) sizes %r tc %r" % (case["f"], ", ".join("%s=%r" % kv for kv in sorted(case["kw"].items())),
                                                 ", ".join("%s=%r" % (s_, case[s_]) for s_ in ("alpha", "beta") if s_ in case),
                                                 case["size"], case["tcs"])


def oracle(case, stats=None):
    f = case["f"]
    R = ROUTINES[f]
    cls, why, ops, sem = sb.resolve(case)
    if len(set(case["tcs"].values())) == 1 and list(case["tcs"].values())[0] in "dz":
        case = dict(case, tc=list(case["tcs"].values())[0])
    bufs = fill(case, ops, cls)
    mats = {n_: to_cvx(bufs[n_], case["size"][n_], case["tcs"][n_]) for n_ in bufs}
    before = {n_: back(mats[n_]) for n_ in mats}
    args = []
    for p in R["pos"]:
        if p in mats:
            args.append(mats[p])
        elif p == "alpha":
            args.append(cnum(case.get("alpha", 1.0)))
        else:
            args.append(case["kw"][p])
    kwargs = {k_: v for k_, v in case["kw"].items() if k_ not in R["pos"]}
    for sc in ("alpha", "beta"):
        if sc in case and sc not in R["pos"]:
            kwargs[sc] = cnum(case[sc])
    what = describe(case)
    try:
        ret = getattr(blas, f)(*args, **kwargs)
        err = None
    except (TypeError, ValueError) as e:
        ret, err = None, e
    except Exception as e:       # noqa
        raise Violation("%s raised %s: %s" % (what, type(e).__name__, e))
    after = {n_: back(mats[n_]) for n_ in mats}
    labels = ["f:" + f, "class:" + cls, "outcome:" + ("refused" if err else "done")]
    if "mut" in case:
        labels.append("mut:" + case["mut"])
    nontrivial = False
    if err is not None:
        if cls == ACCEPT:
            raise Violation("%s: all documented conditions hold but the call was refused with %s: %s" % (what, type(err).__name__, err))
        for n_ in mats:
            if repr(after[n_]) != repr(before[n_]):
                raise Violation("%s: refused (%s) but %s was modified" % (what, err, n_))
        nontrivial = cls == REJECT
    else:
        if cls == REJECT:
            raise Violation("%s: must be refused (%s) but was carried out" % (what, why))
        if cls == ACCEPT:
            a = cnum(case.get("alpha", 1.0))
            b = cnum(case.get("beta", 0.0))
            vals = {o.name: o.get(bufs[o.name]) for o in ops}
            exp, eret = sem(vals, a, b)
            for o in ops:
                wr = set(o.footprint()) if "w" in o.mode else set()
                got = after[o.name]
                for k_ in range(len(got)):
                    if k_ not in wr and repr(got[k_]) != repr(before[o.name][k_]):
                        raise Violation("%s: element %d of %s changed (%r -> %r) although it is outside the addressed %s"
                                        % (what, k_, o.name, before[o.name][k_], got[k_], "output footprint" if wr else "data (input only)"))
                if o.name in exp:
                    E = exp[o.name]
                    scale = 1.0 + float(np.max(np.abs(E))) if E.size else 1.0
                    ents = o.entries() if o.kind == "mat" else [(i, f_) for i, f_ in enumerate(o.footprint())]
                    for idx, f_ in ents:
                        e_ = E[idx]
                        if not abs(got[f_] - e_) <= 1e-9 * scale:
                            raise Violation("%s: %s%r = %r, reference %r" % (what, o.name, idx, got[f_], complex(e_) if np.iscomplexobj(e_) else float(e_)))
            if eret is not None:
                if f == "iamax":
                    if ret != eret:
                        raise Violation("%s returned %r, reference %r" % (what, ret, eret))
                elif not abs(ret - eret) <= 1e-9 * (1 + abs(eret)):
                    raise Violation("%s returned %r, reference %r" % (what, ret, eret))
                if case["tc"] == "z" and f in ("dot", "dotu") and not isinstance(ret, complex):
                    raise Violation("%s returned %r, expected a complex number" % (what, ret))
            elif ret is not None:
                raise Violation("%s returned %r" % (what, ret))
            big = any((o.n if o.kind == "vec" else min(o.rows, o.cols)) >= 2 for o in ops)
            nondefault = any(k_.startswith(("inc", "ld", "offset")) and v not in (0, 1) for k_, v in case["kw"].items()) or \
                any(k_ in R["flags"] for k_ in case["kw"]) or len(case["kw"]) < len(R["kws"])
            nontrivial = big and nondefault
    if stats is not None:
        stats.evaluated(case, nontrivial, labels)


def search(ctx, stats):
    n = ctx.n(400000, 12000000)
    v = run_given(case_strategy(), lambda c: oracle(c, stats), ctx.seed, n, stats, journal=ctx.journal)
    return [v] if v else []


def replay(case, part=None):
    try:
        oracle(case, None)
    except Violation as v:
        return v.msg
    return None
