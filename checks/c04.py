"""C04 — 'optimal' from cpl/cp/gp satisfies the nonlinear KKT conditions in-domain."""
import math
import numpy as np
from hypothesis import strategies as st
from vlib.harness import Violation, run_given
from vlib import ref_cone as rc, gen_cone as gc, judge, nlfam

from cvxopt import matrix, spmatrix, sparse, solvers

ROUND = 1e-9
BOX = 6.0


@st.composite
def case_strategy(draw):
    entry = draw(st.sampled_from(["cpl", "cp", "cp", "gp"]))
    n = draw(st.integers(1, 3))
    kinds = draw(st.sampled_from(["l", "l", "lq", "ls", "lqs"])) if entry != "gp" else "l"
    dims = draw(gc.dims_strategy(kinds=kinds, max_l=2, max_q=1, max_qsize=3, max_s=2 if entry != "gp" else 0, max_sorder=2,
                                 nonempty=False))
    N = rc.cdim(dims)
    p = draw(st.integers(0, 1)) if n >= 2 else 0
    case = dict(entry=entry, n=n, dims=dims, p=p,
                xstar=[draw(nlfam.dy()) for _ in range(n)],
                G=[[draw(nlfam.dy()) for _ in range(n)] for _ in range(N)],
                su=[draw(nlfam.dy()) for _ in range(N)], sdelta=draw(st.sampled_from([0.5, 1.0, 2.0])),
                A=[[draw(nlfam.dy()) for _ in range(n)] for _ in range(p)],
                x0dir=[draw(st.integers(-1, 1)) for _ in range(n)], box=draw(st.sampled_from([1.0, 6.0, 6.0])),
                spDf=draw(st.booleans()), spH=draw(st.booleans()), spG=draw(st.booleans()),
                kkt=draw(st.sampled_from([None, None, "ldl", "ldl2", "chol"])),
                opts={})
    if draw(st.booleans()):
        case["opts"]["feastol"] = draw(st.sampled_from([1e-5, 1e-6, 1e-8]))
    if draw(st.integers(0, 3)) == 0:
        case["opts"]["refinement"] = draw(st.integers(0, 2))
    if draw(st.integers(0, 3)) == 0:
        case["opts"]["abstol"] = draw(st.sampled_from([1e-5, 1e-8]))
    mnl = draw(st.integers(0, 2))
    if entry == "gp":
        K = [draw(st.integers(1, 3)) for _ in range(1 + mnl)]
        case["K"] = K
        case["F"] = [[draw(nlfam.dy(-2, 2)) for _ in range(n)] for _ in range(sum(K))]
        case["g"] = [draw(nlfam.dy(-2, 2)) for _ in range(sum(K))]
        case["margins"] = [draw(st.sampled_from([0.5, 1.0, 2.0])) for _ in range(mnl)]
    else:
        if entry == "cpl":
            mnl = max(mnl, draw(st.integers(0, 1)))
            case["c"] = [draw(nlfam.dy()) for _ in range(n)]
        else:
            case["f0"] = draw(nlfam.func_prims(n))
        case["cons"] = [draw(nlfam.func_prims(n)) for _ in range(mnl)]
        case["margins"] = [draw(st.sampled_from([0.5, 1.0, 2.0])) for _ in range(mnl)]
    return case


class Problem:
    """Numpy description of the generated problem + the cvxopt callback with call log."""
    def __init__(self, case):
        self.case = case
        n = self.n = case["n"]
        self.entry = case["entry"]
        xs = self.xstar = np.array(case["xstar"], dtype=float)
        gd = case["dims"]
        N = rc.cdim(gd)
        Gg = rc.symcols(np.array(case["G"], dtype=float).reshape((N, n)), gd) if N else np.zeros((0, n))
        s0 = gc.interior(case["su"], case["sdelta"], gd)
        hg = Gg @ xs + s0
        # box rows first (keeps the feasible set compact and [Df; G] of full column rank)
        self.dims = {"l": 2 * n + gd["l"], "q": list(gd["q"]), "s": list(gd["s"])}
        self.G = np.vstack([np.eye(n), -np.eye(n), Gg])
        BOX_ = case.get("box", BOX)
        self.h = np.concatenate([xs + BOX_, -(xs - BOX_), hg])
        self.A = np.array(case["A"], dtype=float).reshape((case["p"], n))
        self.b = self.A @ xs
        self.x0 = xs + 0.125 * np.array(case["x0dir"], dtype=float)
        if self.entry == "gp":
            K = case["K"]
            F = np.array(case["F"], dtype=float).reshape((sum(K), n))
            g = np.array(case["g"], dtype=float)
            self.funcs = []
            ind = 0
            for k, m in enumerate(K):
                f = nlfam.LSE(F[ind:ind + m], g[ind:ind + m].copy())
                if k >= 1:
                    shift = f.val(xs) + case["margins"][k - 1]
                    f.g = f.g - shift
                    g[ind:ind + m] -= shift
                self.funcs.append(f)
                ind += m
            self.gpF, self.gpg, self.K = F, g, K
            self.x0 = np.zeros(n)          # gp starts its own F() at x0 = 0
            self.f0 = self.funcs[0]
            self.cons = self.funcs[1:]
            self.c = None
        else:
            self.cons = []
            for pr, mg in zip(case["cons"], case["margins"]):
                f = nlfam.build(pr, n, xs)
                f.t = -mg - f.val(xs)          # f(xstar) = -margin: strictly feasible
                self.cons.append(f)
            if self.entry == "cpl":
                self.c = np.array(case["c"], dtype=float)
                self.f0 = None
            else:
                self.f0 = nlfam.build(case["f0"], n, xs)
                self.c = None
        self.mnl = len(self.cons)
        self.log = dict(calls=0, refused=0, H_outside=0, pts=[])

    def funcs_all(self):
        return ([self.f0] if self.f0 is not None else []) + self.cons

    def dom(self, x):
        return all(f.dom(x) for f in self.funcs_all())

    def fvals(self, x):
        fs = self.funcs_all()
        return np.array([f.val(x) for f in fs]), np.array([f.grad(x) for f in fs]).reshape((len(fs), self.n))

    def callback(self):
        P = self
        n = self.n
        m_all = len(self.funcs_all())

        def F(x=None, z=None):
            if x is None:
                return P.mnl, gc.cvx_dense(P.x0)
            xv = np.array(list(x), dtype=float)
            P.log["calls"] += 1
            if not P.dom(xv):
                P.log["refused"] += 1
                if z is not None:
                    P.log["H_outside"] += 1
                return None
            if z is None:
                P.log["pts"].append(xv)
            f, Df = P.fvals(xv)
            fm = matrix(f.tolist(), (m_all, 1), "d")
            Dfm = gc.cvx_dense(Df) if m_all else matrix(0.0, (0, n))
            if P.case["spDf"] and m_all:
                Dfm = sparse(Dfm)
            if z is None:
                return fm, Dfm
            H = np.zeros((n, n))
            for zk, fk in zip(list(z), P.funcs_all()):
                H += zk * fk.hess(xv)
            Hm = gc.cvx_dense(H)
            if P.case["spH"]:
                Hm = sparse(Hm)
            return fm, Dfm, Hm
        return F


def solve(P):
    case = P.case
    opts = dict(case["opts"])
    opts["show_progress"] = False
    G = gc.cvx(P.G, case["spG"])
    h = gc.cvx_dense(P.h)
    A = gc.cvx_dense(P.A)
    b = gc.cvx_dense(P.b)
    if P.entry == "cpl":
        return solvers.cpl(gc.cvx_dense(P.c), P.callback(), G, h, P.dims, A, b, kktsolver=case["kkt"], options=opts)
    if P.entry == "cp":
        return solvers.cp(P.callback(), G, h, P.dims, A, b, kktsolver=case["kkt"], options=opts)
    # "F is a dense or sparse real matrix": the flag that selects sparse Df for cp/cpl selects a sparse F here
    return solvers.gp(P.K, gc.cvx(P.gpF, case["spDf"]), gc.cvx_dense(P.gpg), G, h, A if case["p"] else None,
                      b if case["p"] else None, kktsolver=case["kkt"], options=opts)


def cone_e(dims):
    """Identity element of the cone (the solvers' initial s and z)."""
    e = np.zeros(rc.cdim(dims))
    for kind, ind, m in rc.blocks(dims):
        if kind == "l":
            e[ind:ind + m] = 1.0
        elif kind == "q":
            e[ind] = 1.0
        else:
            for j in range(m):
                e[ind + j * (m + 1)] = 1.0
    return e


def judge_cpl(P, sol, feastol, abstol, reltol):
    msgs = []
    dims = P.dims
    for k in ("x", "y", "snl", "sl", "znl", "zl"):
        if sol.get(k) is None:
            return ["'optimal' but %s is None" % k]
    x, y = rc.vec(sol["x"]), rc.vec(sol["y"])
    snl, znl, sl, zl = (rc.vec(sol[k]) for k in ("snl", "znl", "sl", "zl"))
    n, mnl, N = P.n, P.mnl, rc.cdim(dims)
    if len(x) != n or len(snl) != mnl or len(znl) != mnl or len(sl) != N or len(zl) != N or len(y) != P.case["p"]:
        return ["result vector sizes wrong: x %d snl %d znl %d sl %d zl %d y %d" % (len(x), len(snl), len(znl), len(sl), len(zl), len(y))]
    if not all(np.all(np.isfinite(t)) for t in (x, y, snl, znl, sl, zl)):
        return ["non-finite result"]
    if not P.dom(x):
        return ["returned x is outside the domain of F"]
    f, Df = P.fvals(x)
    f0v, Df0 = P.fvals(P.x0)
    e = cone_e(dims)
    Gs = P.G
    sls, zls = rc.symvec(sl, dims), rc.symvec(zl, dims)
    rx = P.c + Df.T @ znl + Gs.T @ zls + P.A.T @ y
    rznl = f + snl
    rzl = Gs @ x + sls - P.h
    ry = P.A @ x - P.b
    pres0 = max(1.0, math.sqrt(judge.nrm(P.A @ P.x0 - P.b) ** 2 + judge.nrm(f0v + 1.0) ** 2 + judge.nrm(Gs @ P.x0 + e - P.h) ** 2))
    dres0 = max(1.0, judge.nrm(P.c + Df0.T @ np.ones(mnl) + Gs.T @ e))
    pres = math.sqrt(judge.nrm(ry) ** 2 + judge.nrm(rznl) ** 2 + judge.nrm(rzl) ** 2) / pres0
    dres = judge.nrm(rx) / dres0
    nG, nA, nDf = np.linalg.norm(Gs), (np.linalg.norm(P.A) if P.A.size else 0.0), (np.linalg.norm(Df) if Df.size else 0.0)
    psc = (nG * judge.nrm(x) + judge.nrm(sls) + judge.nrm(P.h) + nA * judge.nrm(x) + judge.nrm(P.b) + judge.nrm(f) + judge.nrm(snl)) / pres0
    dsc = (judge.nrm(P.c) + nDf * judge.nrm(znl) + nG * judge.nrm(zls) + nA * judge.nrm(y)) / dres0
    if pres > feastol * (1 + 1e-6) + ROUND * psc:
        msgs.append("recomputed primal residual %.3e > feastol %.1e (normaliser %.3g)" % (pres, feastol, pres0))
    if dres > feastol * (1 + 1e-6) + ROUND * dsc:
        msgs.append("recomputed stationarity residual %.3e > feastol %.1e (normaliser %.3g)" % (dres, feastol, dres0))

    def fld(name, val, scale):
        rep = sol.get(name)
        if not judge.isnum(rep) or not judge.close(rep, val, scale):
            msgs.append("field %r = %r but recomputed %r (scale %.2e)" % (name, rep, val, scale))
    fld("primal infeasibility", pres, psc)
    fld("dual infeasibility", dres, dsc)
    if mnl and (snl.min() < -ROUND * max(1, judge.nrm(snl)) or znl.min() < -ROUND * max(1, judge.nrm(znl))):
        msgs.append("snl or znl negative: %r %r" % (snl.min(), znl.min()))
    if N:
        if rc.min_slack(sl, dims) < -ROUND * max(1, judge.nrm(sls)):
            msgs.append("sl outside the cone")
        if rc.min_slack(zl, dims) < -ROUND * max(1, judge.nrm(zls)):
            msgs.append("zl outside the cone")
    gap = float(snl @ znl) + float(sls @ zls)
    gsc = judge.nrm(snl) * judge.nrm(znl) + judge.nrm(sls) * judge.nrm(zls)
    fld("gap", gap, gsc)
    pcost = float(P.c @ x)
    dcost = pcost + float(znl @ f) + float(zls @ (Gs @ x - P.h)) + float(y @ ry)
    psc2 = judge.nrm(P.c) * judge.nrm(x)
    dsc2 = psc2 + judge.nrm(znl) * judge.nrm(f) + judge.nrm(zls) * (nG * judge.nrm(x) + judge.nrm(P.h)) + judge.nrm(y) * (nA * judge.nrm(x) + judge.nrm(P.b)) + gsc
    fld("primal objective", pcost, psc2)
    fld("dual objective", dcost, dsc2)
    full_s = np.concatenate([snl, sl])
    full_z = np.concatenate([znl, zl])
    if mnl + N:
        fld("primal slack", rc.min_slack(full_s, dims, mnl), max(1, judge.nrm(full_s)))
        fld("dual slack", rc.min_slack(full_z, dims, mnl), max(1, judge.nrm(full_z)))
    r = dict(gap=gap, gap_scale=gsc, pcost=pcost, pcost_scale=psc2, dcost=dcost, dcost_scale=dsc2)
    if not msgs:
        judge.check_relgap(sol, r, msgs)
    ok = gap <= abstol + ROUND * gsc
    if not ok and pcost < 0 and gap / -pcost <= reltol * (1 + 1e-6) + ROUND * gsc / -pcost:
        ok = True
    if not ok and dcost > 0 and gap / dcost <= reltol * (1 + 1e-6) + ROUND * gsc / dcost:
        ok = True
    if not ok:
        msgs.append("no gap criterion holds: gap %.3e pcost %.6e dcost %.6e" % (gap, pcost, dcost))
    return msgs


def judge_cp(P, sol, feastol, abstol, reltol):
    """cp/gp return the reduced vectors of the epigraph problem: derived bounds (DESIGN 4/C04)."""
    msgs = []
    dims = P.dims
    for k in ("x", "y", "snl", "sl", "znl", "zl"):
        if sol.get(k) is None:
            return ["'optimal' but %s is None" % k]
    if not isinstance(sol["x"], matrix):
        return ["cp returned x of type %s (the internal epigraph variable?)" % type(sol["x"]).__name__]
    x, y = rc.vec(sol["x"]), rc.vec(sol["y"])
    snl, znl, sl, zl = (rc.vec(sol[k]) for k in ("snl", "znl", "sl", "zl"))
    n, mnl, N = P.n, P.mnl, rc.cdim(dims)
    if len(x) != n or len(snl) != mnl or len(znl) != mnl or len(sl) != N or len(zl) != N:
        return ["result vector sizes wrong: x %d (n=%d) snl %d znl %d (mnl=%d) sl %d zl %d (N=%d)" % (
            len(x), n, len(snl), len(znl), mnl, len(sl), len(zl), N)]
    if not all(np.all(np.isfinite(t)) for t in (x, y, snl, znl, sl, zl)):
        return ["non-finite result"]
    if not P.dom(x):
        return ["returned x is outside the domain of F"]
    f, Df = P.fvals(x)
    f0v, Df0 = P.fvals(P.x0)
    e = cone_e(dims)
    Gs = P.G
    sls, zls = rc.symvec(sl, dims), rc.symvec(zl, dims)
    g0 = Df[0]
    rx = g0 + Df[1:].T @ znl + Gs.T @ zls + P.A.T @ y
    # normalisers of the epigraph problem started at (x0, t0 = 0)
    fe0 = f0v.copy()
    pres0 = max(1.0, math.sqrt(judge.nrm(P.A @ P.x0 - P.b) ** 2 + judge.nrm(fe0 + 1.0) ** 2 + judge.nrm(Gs @ P.x0 + e - P.h) ** 2))
    dres0 = max(1.0, judge.nrm(Df0.T @ np.ones(mnl + 1) + Gs.T @ e))
    # stationarity: the dropped epigraph multiplier z0 satisfies |1 - z0| <= feastol*dres0
    bound = feastol * dres0 * (1.0 + judge.nrm(g0)) * (1 + 1e-6) + ROUND * (judge.nrm(g0) + np.linalg.norm(Df) * (judge.nrm(znl) + 1) + np.linalg.norm(Gs) * judge.nrm(zls) + 1)
    if judge.nrm(rx) > bound:
        msgs.append("stationarity ||grad f0 + Df'znl + G'zl + A'y|| = %.3e exceeds the derived bound %.3e" % (judge.nrm(rx), bound))
    prim = math.sqrt(judge.nrm(P.A @ x - P.b) ** 2 + judge.nrm(f[1:] + snl) ** 2 + judge.nrm(Gs @ x + sls - P.h) ** 2)
    pb = feastol * pres0 * (1 + 1e-6) + ROUND * (np.linalg.norm(Gs) * judge.nrm(x) + judge.nrm(P.h) + judge.nrm(sls) + judge.nrm(f) + 1)
    if prim > pb:
        msgs.append("primal residual of the kept components %.3e > feastol*pres0 = %.3e" % (prim, pb))
    if mnl and (snl.min() < -ROUND * max(1, judge.nrm(snl)) or znl.min() < -ROUND * max(1, judge.nrm(znl))):
        msgs.append("snl or znl negative")
    if N:
        if rc.min_slack(sl, dims) < -ROUND * max(1, judge.nrm(sls)):
            msgs.append("sl outside the cone")
        if rc.min_slack(zl, dims) < -ROUND * max(1, judge.nrm(zls)):
            msgs.append("zl outside the cone")
    gap = float(snl @ znl) + float(sls @ zls)
    gsc = judge.nrm(snl) * judge.nrm(znl) + judge.nrm(sls) * judge.nrm(zls)
    rep = sol.get("gap")
    if not judge.isnum(rep) or gap > rep + ROUND * gsc + 1e-12:
        msgs.append("gap of the returned vectors %.6e exceeds the reported gap %r" % (gap, rep))
    return msgs


def reference_optimum(P):
    """For cp with a quadratic objective and only linear constraints: coneqp on the same data."""
    if P.entry != "cp" or P.mnl or P.f0.kind != "quad":
        return None
    try:
        sol = solvers.coneqp(gc.cvx_dense(P.f0.Q), gc.cvx_dense(P.f0.r), gc.cvx_dense(P.G), gc.cvx_dense(P.h), P.dims,
                             gc.cvx_dense(P.A), gc.cvx_dense(P.b), kktsolver="ldl", options={"show_progress": False})
    except Exception:
        return None
    if sol["status"] != "optimal":
        return None
    return sol


def oracle(case, stats=None):
    P = Problem(case)
    labels = ["entry:" + P.entry, "mnl:%d" % P.mnl, "kkt:" + str(case["kkt"])]
    for f in P.funcs_all():
        labels.append("f:" + f.kind)
    if case["p"]:
        sa = np.linalg.svd(P.A, compute_uv=False)
        if sa[-1] < 1e-3 * max(1.0, sa[0]):
            if stats is not None:
                stats.evaluated(case, False, labels + ["skipped:rankA"])
            return
    try:
        sol = solve(P)
    except Exception as e:
        # containment of numerical failures is C10's business
        if stats is not None:
            stats.evaluated(case, False, labels + ["raised:" + type(e).__name__])
        return
    if P.log["H_outside"]:
        raise Violation("F(x, z) was called %d time(s) at a point where F(x) reports 'outside the domain'" % P.log["H_outside"])
    status = sol["status"]
    labels.append("status:" + status)
    nontrivial = False
    if status == "optimal":
        feastol = case["opts"].get("feastol", 1e-7)
        abstol = case["opts"].get("abstol", 1e-7)
        reltol = case["opts"].get("reltol", 1e-6)
        msgs = judge_cpl(P, sol, feastol, abstol, reltol) if P.entry == "cpl" else judge_cp(P, sol, feastol, abstol, reltol)
        if not msgs and P.entry != "gp":
            xv = rc.vec(sol["x"])
            if not any(np.array_equal(xv, p_) for p_ in P.log["pts"]) and not np.array_equal(xv, P.x0):
                msgs.append("returned x is not one of the points at which F was evaluated")
        if msgs:
            raise Violation("status 'optimal' from %s (kkt=%s) but: %s" % (P.entry, case["kkt"], "; ".join(msgs[:4])))
        ref = reference_optimum(P)
        if ref is not None:
            labels.append("vs_coneqp")
            xq = rc.vec(ref["x"])
            xv = rc.vec(sol["x"])
            fq, fc = P.f0.val(xq), P.f0.val(xv)
            tol = 1e-5 * (1 + abs(fq)) + 10 * (ref["gap"] + sol["gap"])
            if abs(fq - fc) > tol:
                raise Violation("cp objective %.9g differs from coneqp on the same quadratic data %.9g (tol %.2e)" % (fc, fq, tol))
            mu = float(np.linalg.eigvalsh(P.f0.Q)[0])
            if mu >= 0.25:
                bnd = math.sqrt(2 * (tol + abs(fq - fc)) / mu) + 1e-6
                if judge.nrm(xq - xv) > bnd:
                    raise Violation("cp minimiser differs from coneqp's: |dx| = %.3e > %.3e" % (judge.nrm(xq - xv), bnd))
        if P.entry == "gp":
            # gp must agree with cp on the same log-sum-exp data
            labels.append("gp_vs_cp")
            P2 = Problem(dict(case))
            P2.entry = "cp"
            try:
                sol2 = solvers.cp(P2.callback(), gc.cvx_dense(P2.G), gc.cvx_dense(P2.h), P2.dims, gc.cvx_dense(P2.A),
                                  gc.cvx_dense(P2.b), options={"show_progress": False})
            except Exception:
                sol2 = None
            if sol2 is not None and sol2["status"] == "optimal":
                f1, f2 = P.f0.val(rc.vec(sol["x"])), P.f0.val(rc.vec(sol2["x"]))
                tol = 1e-5 * (1 + abs(f2)) + 10 * (sol["gap"] + sol2["gap"])
                if abs(f1 - f2) > tol:
                    raise Violation("gp objective %.9g differs from cp on the same data %.9g" % (f1, f2))
        nontrivial = P.mnl >= 1 or P.log["refused"] > 0
        if P.log["refused"]:
            labels.append("domain_refusals")
    if stats is not None:
        stats.evaluated(case, nontrivial, labels)


def search(ctx, stats):
    n = ctx.n(16000, 300000)
    v = run_given(case_strategy(), lambda c: oracle(c, stats), ctx.seed, n, stats)
    return [v] if v else []


def replay(case, part):
    try:
        oracle(case)
    except Violation as v:
        return v.msg
    return None
