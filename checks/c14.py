"""C14 — writing an LP to MPS and reading it back preserves the problem; fromfile builds what the format defines."""
import os, tempfile
import numpy as np
from hypothesis import strategies as st
from vlib.harness import Violation, run_given

from cvxopt import matrix, spmatrix, sparse
from cvxopt import modeling as M
from cvxopt.modeling import variable, op, constraint

OPTS = {"show_progress": False}
VALS = [k / 4.0 for k in range(-12, 13) if k != 0] + [1e-3, 125.0, -2048.0, 9999.5, 0.015625, 1e4]
NAMES = ["", "x", "y", "ab", "cost", "var", "Z", "q1", "w_", "name", "alpha123", "alpha124", "wvector", "0", "1", "longvariablename"]
CNAMES = ["", "c", "row", "lim", "e1", "ineq", "constr", "constraint1", "constraint2", "cost", "0", "2"]
TMP = os.environ.get("VERIF_OVERLAY") or tempfile.gettempdir()


def tmpfile(tag):
    fd, p = tempfile.mkstemp(prefix="c14-%s-" % tag, suffix=".mps", dir=TMP)
    os.close(fd)
    return p


# ------------------------------------------------------------------ (a) round trip

@st.composite
def lp_case(draw):
    nv = draw(st.integers(1, 3))
    # mostly short variables; now and then one with more than ten components (two-digit component numbers in the labels)
    lens = [draw(st.integers(1, 3)) if draw(st.integers(0, 7)) else draw(st.integers(10, 12)) for _ in range(nv)]
    vnames = draw(st.lists(st.sampled_from(NAMES[1:]), min_size=nv, max_size=nv, unique=True))
    if draw(st.booleans()):
        vnames = [""] * nv
    cons = []
    ncon = draw(st.integers(1, 4))
    cnames = draw(st.lists(st.sampled_from(CNAMES), min_size=ncon, max_size=ncon))
    if len(set(n for n in cnames if n)) != len([n for n in cnames if n]):
        cnames = [""] * ncon
    for j in range(ncon):
        L = draw(st.integers(1, 3)) if draw(st.integers(0, 7)) else draw(st.integers(10, 12))
        terms = []
        for k in draw(st.lists(st.integers(0, nv - 1), min_size=1, max_size=nv, unique=True)):
            shape = draw(st.sampled_from(["matrix", "matrix", "row", "scalar"]))
            if shape == "scalar" and lens[k] not in (1, L):
                shape = "matrix"
            if shape == "matrix":
                co = [[draw(st.sampled_from(VALS + [0.0, 0.0])) for _ in range(lens[k])] for _ in range(L)]
            elif shape == "row":
                co = [[draw(st.sampled_from(VALS + [0.0])) for _ in range(lens[k])]]
            else:
                co = draw(st.sampled_from(VALS))
            terms.append(dict(var=k, shape=shape, coef=co, sparse=draw(st.booleans())))
        rhs = [draw(st.sampled_from(VALS + [0.0])) for _ in range(L)]
        cons.append(dict(type=draw(st.sampled_from(["<", "<", "=", ">"])), L=L, terms=terms, rhs=rhs,
                         scalar_rhs=draw(st.booleans()), name=cnames[j]))
    obj = [[draw(st.sampled_from(VALS + [0.0, 0.0])) for _ in range(l)] for l in lens]
    return dict(lens=lens, vnames=vnames, cons=cons, obj=obj, objconst=draw(st.sampled_from([0.0, 2.5, -7.0])),
                objvars=draw(st.lists(st.integers(0, nv - 1), min_size=0, max_size=nv, unique=True)),
                name=draw(st.sampled_from(["", "lp1", "aproblem"])))


def build_lp(case):
    lens = case["lens"]
    xs = [variable(l, n) for l, n in zip(lens, case["vnames"])]
    rows = []       # (type, {(var, comp): coef}, rhs) per scalar row, in the order of P.constraints()
    cons = []
    for c in case["cons"]:
        L = c["L"]
        f = None
        dense_rows = [dict() for _ in range(L)]
        for t in c["terms"]:
            k = t["var"]
            x = xs[k]
            if t["shape"] == "scalar":
                term = t["coef"] * x
                for i in range(L):
                    for comp in range(lens[k]):
                        if lens[k] == 1 or comp == i:
                            dense_rows[i][(k, comp)] = dense_rows[i].get((k, comp), 0.0) + t["coef"]
            else:
                A = np.array(t["coef"], dtype=float)
                Am = matrix(A.reshape(-1, order="F").tolist(), A.shape, "d")
                if t["sparse"]:
                    Am = sparse(Am)
                term = Am * x
                for i in range(L):
                    r = A[i] if A.shape[0] == L else A[0]
                    for comp in range(lens[k]):
                        dense_rows[i][(k, comp)] = dense_rows[i].get((k, comp), 0.0) + float(r[comp])
            f = term if f is None else f + term
        rhs = c["rhs"] if not c["scalar_rhs"] else [c["rhs"][0]] * L
        rhsm = matrix([float(v) for v in rhs]) if not c["scalar_rhs"] else float(rhs[0])
        if c["type"] == "<":
            cc = (f <= rhsm)
        elif c["type"] == ">":
            cc = (f >= rhsm)
        else:
            cc = (f == rhsm)
        Le = len(cc)                  # 1 when every term and the right-hand side are scalars
        dr, rh = dense_rows[:Le], list(rhs)[:Le]
        if c["type"] == "<":
            rows += [("<", dict(r), v) for r, v in zip(dr, rh)]
        elif c["type"] == ">":
            rows += [("<", {k: -v for k, v in r.items()}, -b) for r, b in zip(dr, rh)]
        else:
            rows += [("=", dict(r), v) for r, v in zip(dr, rh)]
        if c["name"]:
            cc.name = c["name"]
        cons.append(cc)
    obj = None
    ocoef = {}
    for k in case["objvars"]:
        t = M.dot(matrix([float(v) for v in case["obj"][k]]), xs[k])
        obj = t if obj is None else obj + t
        for comp, v in enumerate(case["obj"][k]):
            ocoef[(k, comp)] = float(v)
    obj = case["objconst"] if obj is None else obj + case["objconst"]
    P = op(obj, cons, case["name"])
    return P, xs, cons, rows, ocoef


def label(name, k, i):
    base = name if name else str(k)
    return (base[:(7 - len(str(i)))] + "_" + str(i))[:8]


def base_names(objs):
    """Names (or positions) from which the writer builds its 8-character labels; positions for all of them when the
    truncated labels of two different rows/columns would coincide (the names only have to be distinct, C14)."""
    names = [o.name if o.name else str(k) for k, o in enumerate(objs)]
    labels = [label(nm, k, i) for k, (nm, o) in enumerate(zip(names, objs)) for i in range(len(o))]
    if len(set(labels)) < len(labels):
        names = [str(k) for k in range(len(objs))]
    return names


def roundtrip_oracle(case, stats=None):
    P, xs, cons, rows, ocoef = build_lp(case)
    lens = case["lens"]
    # order of constraints in the file: inequalities first, then equalities (op.constraints())
    order = P.constraints()
    rows_by_con = {}
    idx = 0
    for cc, c in zip(cons, case["cons"]):
        rows_by_con[id(cc)] = rows[idx:idx + len(cc)]
        idx += len(cc)
    pvars = P.variables()
    labels_v = {}
    vbase = base_names(pvars)
    for k, v in enumerate(pvars):
        kk = [j for j, x in enumerate(xs) if x is v][0]
        for i in range(len(v)):
            labels_v[(kk, i)] = label(vbase[k], k, i)
    labels_r = []
    cbase = base_names(order)
    for j, cc in enumerate(order):
        for l in range(len(cc)):
            labels_r.append((label(cbase[j], j, l), rows_by_con[id(cc)][l]))
    collide = [nm for nm, o in zip(vbase, pvars) if o.name and nm != o.name] + [nm for nm, o in zip(cbase, order) if o.name and nm != o.name]
    fn = tmpfile("rt")
    try:
        try:
            P.tofile(fn)
        except Exception as e:
            raise Violation("tofile raised %s: %s on a linear program" % (type(e).__name__, e))
        Q = op()
        try:
            Q.fromfile(fn)
        except ValueError as e:
            # explicit, documented refusal: a row without variables whose right-hand side makes it infeasible
            if "has no variables" in str(e) and any(
                    (not any(v != 0.0 for v in r[1].values())) and ((r[0] == "<" and r[2] < 0) or (r[0] == "=" and r[2] != 0))
                    for _, r in labels_r):
                if stats is not None:
                    stats.evaluated(case, False, ["roundtrip", "refused:infeasible_empty_row"])
                return
            raise Violation("fromfile raised ValueError: %s on a file written by tofile:\n%s" % (e, open(fn).read()[:1500]))
        except Exception as e:
            raise Violation("fromfile raised %s: %s on a file written by tofile:\n%s" % (type(e).__name__, e, open(fn).read()[:1500]))
        text = open(fn).read()
    finally:
        if os.path.exists(fn):
            os.unlink(fn)
    used = set(labels_v)          # every variable component of the original problem
    qvars = {v.name: v for v in Q.variables()}
    nvar = sum(len(v) for v in pvars)
    if len(qvars) != nvar:
        raise Violation("round trip changed the number of variables: %d written, %d read back (%r)\n%s" % (
            nvar, len(qvars), sorted(qvars), text[:1200]))
    n_in = sum(len(c) for c in P.inequalities())
    n_eq = sum(len(c) for c in P.equalities())
    q_in = sum(len(c) for c in Q.inequalities())
    q_eq = sum(len(c) for c in Q.equalities())
    # rows without any non-zero coefficient are documented to be removed by fromfile ("redundant constraint")
    empty = [r for (l, r) in labels_r if not any(v != 0.0 for v in r[1].values())]
    e_in = sum(1 for r in empty if r[0] == "<")
    e_eq = sum(1 for r in empty if r[0] == "=")
    if (q_in, q_eq) != (n_in - e_in, n_eq - e_eq):
        raise Violation("round trip: %d inequality / %d equality rows written (%d/%d without coefficients), %d / %d read back" % (
            n_in, n_eq, e_in, e_eq, q_in, q_eq))
    qcons = {c.name: c for c in Q.constraints()}

    def coef_of(f, var):
        cf = f._linear._coeff.get(var)
        return 0.0 if cf is None else float(cf[0])
    for lab, (typ, coefs, rhs) in labels_r:
        if not any(v != 0.0 for v in coefs.values()):
            continue
        c = qcons.get(lab)
        if c is None:
            raise Violation("row %r is missing after the round trip (have %r)" % (lab, sorted(qcons)))
        if c.type() != typ:
            raise Violation("row %r changed type %r -> %r" % (lab, typ, c.type()))
        for key, vlab in labels_v.items():
            want = coefs.get(key, 0.0)
            got = coef_of(c._f, qvars[vlab])
            if abs(got - want) > 1e-6 * max(abs(want), 1e-300) and not (want == 0.0 and got == 0.0):
                raise Violation("coefficient of %s in row %s: wrote %r, read back %r" % (vlab, lab, want, got))
        got_rhs = -float(c._f._constant[0])
        if abs(got_rhs - rhs) > 1e-6 * max(abs(rhs), 1e-300) and not (rhs == 0.0 and got_rhs == 0.0):
            raise Violation("right-hand side of row %s: wrote %r, read back %r" % (lab, rhs, got_rhs))
    for key, vlab in labels_v.items():
        want = ocoef.get(key, 0.0)
        got = coef_of(Q.objective, qvars[vlab])
        if abs(got - want) > 1e-6 * max(abs(want), 1e-300) and not (want == 0.0 and got == 0.0):
            raise Violation("objective coefficient of %s: wrote %r, read back %r" % (vlab, want, got))
    for v in Q.variables():
        pass
    # solving both: same status and the same optimal value of the linear part -- only inside the documented
    # domain of the LP solver: Rank(A) = p and Rank([G; A]) = n
    keys = sorted(labels_v)
    Aall = np.zeros((len(labels_r), len(keys)))
    for i_, (_, r) in enumerate(labels_r):
        for j_, k in enumerate(keys):
            Aall[i_, j_] = r[1].get(k, 0.0)
    Aeq = Aall[[i_ for i_, (_, r) in enumerate(labels_r) if r[0] == "="], :]
    if not keys:
        return
    if (len(Aeq) and np.linalg.matrix_rank(Aeq) < len(Aeq)) or np.linalg.matrix_rank(Aall) < len(keys):
        if stats is not None:
            stats.evaluated(case, False, ["roundtrip", "solve_skipped:rank"])
        return
    stat = []
    for prob in (P, Q):
        try:
            prob.solve(options=OPTS)
            ov = prob.objective.value()
            stat.append((prob.status, None if ov is None else float(ov[0])))
        except Exception as e:
            stat.append(("raised:" + type(e).__name__, None))
            if isinstance(e, TypeError) and "at least one inequality" in str(e):
                # op.solve() refuses problems without inequality constraints (modeling.py, explicit TypeError); the
                # reader legitimately drops rows without non-zero entries, so the two ops are not comparable by solving
                if stats is not None:
                    stats.evaluated(case, False, ["roundtrip", "solve_skipped:no_inequality_left"])
                return
    labels = ["roundtrip", "status:" + stat[0][0]]
    both_refused = stat[0][0].startswith("raised") and stat[1][0].startswith("raised")
    if "unknown" not in (stat[0][0], stat[1][0]) and not both_refused:
        if stat[0][0] != stat[1][0]:
            raise Violation("status before the round trip %r, after %r" % (stat[0][0], stat[1][0]))
        if stat[0][0] == "optimal":
            a = stat[0][1] - case["objconst"]
            b = stat[1][1]
            if abs(a - b) > 1e-5 * (1 + abs(a)):
                raise Violation("optimal value of the linear part before %r, after %r" % (a, b))
    nontrivial = any(l > 1 for l in lens) and any(t["shape"] == "matrix" for c in case["cons"] for t in c["terms"]) and \
        any(c["type"] == "=" for c in case["cons"])
    if collide:
        labels = labels + ["names_collide_after_truncation"]
    if max(lens) >= 10 or any(c["L"] >= 10 for c in case["cons"]):
        labels = labels + ["two_digit_component_numbers"]
    if stats is not None:
        stats.evaluated(case, nontrivial, labels)


def nonlp_oracle(case, stats=None):
    """tofile refuses problems that are not LPs."""
    x = variable(2, "x")
    kinds = {0: op(M.sum(abs(x)), [x <= 1]), 1: op(M.sum(x), [abs(x) <= 1]), 2: op(M.max(x), [x >= -1, M.max(x, 0) <= 2])}
    P = kinds[case["k"] % 3]
    fn = tmpfile("nonlp")
    try:
        try:
            P.tofile(fn)
        except TypeError:
            pass
        else:
            raise Violation("tofile accepted a problem that is not an LP (piecewise-linear objective or constraint)")
    finally:
        if os.path.exists(fn):
            os.unlink(fn)
    if stats is not None:
        stats.evaluated(case, False, ["nonlp"])


# ------------------------------------------------------------------ (b) reader on generated fixed-format files

@st.composite
def mps_case(draw):
    nrows = draw(st.integers(1, 4))
    ncols = draw(st.integers(1, 4))
    rnames = ["R%d" % i for i in range(nrows)]
    if draw(st.booleans()):
        rnames = [n + draw(st.sampled_from(["", "x", "_lim"])) for n in rnames]
    rtypes = [draw(st.sampled_from("LGE")) for _ in range(nrows)]
    cnames = ["X%d" % j for j in range(ncols)]
    entries = {}
    for j in range(ncols):
        for r in draw(st.lists(st.integers(-1, nrows - 1), min_size=1, max_size=nrows + 1, unique=True)):
            entries[(j, r)] = draw(st.sampled_from(VALS))        # r == -1: objective row
    for r in range(nrows):          # every row has at least one entry (rows without variables are refused/removed)
        if not any(rr == r for (_, rr) in entries):
            entries[(draw(st.integers(0, ncols - 1)), r)] = draw(st.sampled_from(VALS))
    rhs = {r: draw(st.sampled_from(VALS)) for r in draw(st.lists(st.integers(0, nrows - 1), max_size=nrows, unique=True))}
    ranges = {r: draw(st.sampled_from(VALS)) for r in draw(st.lists(st.integers(0, nrows - 1), max_size=nrows, unique=True))}
    bounds = {}
    for j in draw(st.lists(st.integers(0, ncols - 1), max_size=ncols, unique=True)):
        # two-line kinds in both orders (the lines of a BOUNDS section may come in any order)
        kind = draw(st.sampled_from(["LO", "UP", "LOUP", "FX", "FR", "MI", "MIUP", "PL", "LOPL", "UPLO", "UPMI", "PLLO"]))
        lo = draw(st.sampled_from([v for v in VALS if abs(v) < 100]))
        up = lo + draw(st.sampled_from([0.5, 1.0, 8.0]))
        if kind in ("UP", "UPLO", "UPMI"):
            up = abs(up) + 0.25              # UP with a negative value and no lower bound (yet) is dialect dependent
        bounds[j] = dict(kind=kind, lo=lo, up=up)
    return dict(rnames=rnames, rtypes=rtypes, cnames=cnames, entries=sorted([[j, r, v] for (j, r), v in entries.items()]),
                rhs=sorted(rhs.items()), ranges=sorted(ranges.items()), bounds=sorted(bounds.items()),
                two_per_line=draw(st.booleans()), comments=draw(st.booleans()), extra_rhs=draw(st.booleans()),
                extra_n=draw(st.booleans()), name=draw(st.sampled_from(["", "TEST", "LONGNAME"])),
                order_seed=draw(st.integers(0, 1000)))


def fld(t, a, b, c="", d="", e="", f=""):
    """Fixed-format data line: fields at columns 2-3, 5-12, 15-22, 25-36, 40-47, 50-61."""
    s = " %-2s %-8s  %-8s  %12s" % (t, a, b, c)
    if e != "":
        s += "   %-8s  %12s" % (e, f)
    return s.rstrip() + "\n"


def num(v):
    return "% .5E" % v


def render(case):
    out = []
    if case["comments"]:
        out.append("* generated file\n")
    out.append("NAME          %s\n" % case["name"])
    out.append("ROWS\n")
    out.append(" N  COST\n")
    for n, t in zip(case["rnames"], case["rtypes"]):
        out.append(" %s  %s\n" % (t, n))
        if case["comments"] and t == "E":
            out.append("* an equality row\n")
    if case["extra_n"]:
        out.append(" N  OTHEROBJ\n")
    out.append("COLUMNS\n")
    byc = {}
    for j, r, v in case["entries"]:
        byc.setdefault(j, []).append((r, v))
    for j in sorted(byc):
        items = byc[j]
        k = 0
        while k < len(items):
            r1, v1 = items[k]
            n1 = "COST" if r1 < 0 else case["rnames"][r1]
            if case["two_per_line"] and k + 1 < len(items):
                r2, v2 = items[k + 1]
                n2 = "COST" if r2 < 0 else case["rnames"][r2]
                out.append(fld("", case["cnames"][j], n1, num(v1), "", n2, num(v2)))
                k += 2
            else:
                out.append(fld("", case["cnames"][j], n1, num(v1)))
                k += 1
        if case["extra_n"]:
            out.append(fld("", case["cnames"][j], "OTHEROBJ", num(3.0)))
    def pairs(vec, name):
        k = 0
        while k < len(vec):
            r1, v1 = vec[k]
            if case["two_per_line"] and k + 1 < len(vec):
                r2, v2 = vec[k + 1]
                out.append(fld("", name, case["rnames"][r1], num(v1), "", case["rnames"][r2], num(v2)))
                k += 2
            else:
                out.append(fld("", name, case["rnames"][r1], num(v1)))
                k += 1
    out.append("RHS\n")
    pairs(case["rhs"], "RHS1")
    if case["extra_rhs"] and case["rhs"]:
        out.append(fld("", "RHS2", case["rnames"][0], num(77.0)))
    if case["ranges"]:
        out.append("RANGES\n")
        pairs(case["ranges"], "RNG1")
        if case["extra_rhs"] and case["ranges"]:
            out.append(fld("", "RNG2", case["rnames"][0], num(5.0)))
    if case["bounds"]:
        out.append("BOUNDS\n")
        for j, b in case["bounds"]:
            cn = case["cnames"][j]
            k = b["kind"]
            if k in ("UPLO", "UPMI"):
                out.append(fld("UP", "BND1", cn, num(b["up"])))
            if k == "PLLO":
                out.append(fld("PL", "BND1", cn))
            if k in ("LO", "LOUP", "LOPL", "UPLO", "PLLO"):
                out.append(fld("LO", "BND1", cn, num(b["lo"])))
            if k in ("MI", "MIUP", "UPMI"):
                out.append(fld("MI", "BND1", cn))
            if k in ("UP", "LOUP", "MIUP"):
                out.append(fld("UP", "BND1", cn, num(b["up"])))
            if k in ("PL", "LOPL"):
                out.append(fld("PL", "BND1", cn))
            if k == "FX":
                out.append(fld("FX", "BND1", cn, num(b["lo"])))
            if k == "FR":
                out.append(fld("FR", "BND1", cn))
        if case["extra_rhs"] and case["bounds"]:
            out.append(fld("UP", "BND2", case["cnames"][0], num(1.0)))
    out.append("ENDATA\n")
    return "".join(out)


def expected(case):
    """The constraints the MPS format defines, as a multiset of (type, sorted coefficient tuple, rhs)."""
    ncols = len(case["cnames"])
    rhs = dict(case["rhs"])
    ranges = dict(case["ranges"])
    exp = []
    cols_present = sorted({j for j, r, v in case["entries"]})
    for r, (n, t) in enumerate(zip(case["rnames"], case["rtypes"])):
        a = tuple(sorted((case["cnames"][j], float("%.5E" % v)) for j, rr, v in case["entries"] if rr == r))
        b = float("%.5E" % rhs.get(r, 0.0))
        R = ranges.get(r)
        R = None if R is None else float("%.5E" % R)
        if t == "L":
            rows = [("<=", a, b)] + ([(">=", a, b - abs(R))] if R is not None else [])
        elif t == "G":
            rows = [(">=", a, b)] + ([("<=", a, b + abs(R))] if R is not None else [])
        else:
            if R is None or R == 0.0:
                rows = [("==", a, b)]
            elif R > 0:
                rows = [(">=", a, b), ("<=", a, b + R)]
            else:
                rows = [("<=", a, b), (">=", a, b + R)]
        exp += rows
    bnd = dict(case["bounds"])
    for j in cols_present:
        cn = case["cnames"][j]
        lo, up = 0.0, None
        b = bnd.get(j)
        if b is not None:
            k = b["kind"]
            blo, bup = float("%.5E" % b["lo"]), float("%.5E" % b["up"])
            if k in ("LO", "LOUP", "LOPL", "UPLO", "PLLO"):
                lo = blo
            if k in ("MI", "MIUP", "UPMI"):
                lo = None
            if k in ("UP", "LOUP", "MIUP", "UPLO", "UPMI"):
                up = bup
            if k == "FX":
                lo = up = blo
            if k == "FR":
                lo = up = None
        a = ((cn, 1.0),)
        if lo is not None and lo == up:
            exp.append(("==", a, lo))
        else:
            if lo is not None:
                exp.append((">=", a, lo))
            if up is not None:
                exp.append(("<=", a, up))
    obj = tuple(sorted((case["cnames"][j], float("%.5E" % v)) for j, rr, v in case["entries"] if rr == -1))
    return exp, obj, cols_present


def actual(Q):
    """Normalised constraints of the op built by fromfile: (type, coefficients, rhs) with '<=' / '>=' / '=='."""
    out = []
    for c in Q.inequalities() + Q.equalities():
        f = c._f
        if len(c) != 1:
            raise Violation("fromfile built a constraint of length %d" % len(c))
        co = {v.name: float(cf[0]) for v, cf in f._linear._coeff.items()}
        k = float(f._constant[0])
        if c.type() == "=":
            out.append(("==", tuple(sorted(co.items())), -k))
        else:
            out.append(("<=", tuple(sorted(co.items())), -k))
    return out


def canon_row(row):
    """(type, coefs, rhs) -> canonical '<=' / '==' form with a sign convention that makes >= comparable."""
    t, a, b = row
    if t == ">=":
        a = tuple((n, -v) for n, v in a)
        b = -b
        t = "<="
    return (t, tuple((n, round(v, 9)) for n, v in a if True), round(b, 9))


def reader_oracle(case, stats=None):
    text = render(case)
    fn = tmpfile("rd")
    try:
        with open(fn, "w") as fh:
            fh.write(text)
        Q = op()
        try:
            Q.fromfile(fn)
        except Exception as e:
            raise Violation("fromfile raised %s: %s on a well-formed fixed-format file:\n%s" % (type(e).__name__, e, text[:1500]))
    finally:
        if os.path.exists(fn):
            os.unlink(fn)
    exp, obj, cols_present = expected(case)
    # rows without coefficients: fromfile removes them when they are redundant and raises otherwise (documented
    # in its code); the generator gives every column at least one entry but rows may be empty
    exp2 = []
    for (t, a, b) in exp:
        if not a:
            continue
        exp2.append(canon_row((t, a, b)))
    got = [canon_row(r) for r in actual(Q) if r[1]]
    if sorted(exp2) != sorted(got):
        missing = [r for r in exp2 if r not in got]
        extra = [r for r in got if r not in exp2]
        raise Violation("fromfile built different constraints than the MPS format defines; missing %r, unexpected %r\n%s" % (
            missing[:3], extra[:3], text[:1500]))
    gobj = tuple(sorted((v.name, round(float(cf[0]), 9)) for v, cf in Q.objective._linear._coeff.items()))
    if gobj != tuple((n, round(v, 9)) for n, v in obj):
        raise Violation("objective read as %r, file defines %r" % (gobj, obj))
    if Q.name != case["name"][:8]:
        raise Violation("problem name read as %r, file says %r" % (Q.name, case["name"]))
    kinds = {b["kind"] for _, b in case["bounds"]}
    if stats is not None:
        stats.evaluated(case, bool(case["ranges"]) and len(kinds) >= 2, ["reader"] + ["bound:" + k for k in sorted(kinds)])


def search(ctx, stats):
    if ctx.part == "fuzz":
        # the generated MPS files of the reader part, driven by libFuzzer (atheris) on the branch coverage of modeling.py
        from vlib.harness import run_fuzz
        v = run_fuzz(mps_case(), lambda c: reader_oracle(c, stats), ctx.seed, ctx.n(3000, 150000), stats, journal=ctx.journal)
        return [v] if v else []
    if ctx.part == "reader":
        v = run_given(mps_case(), lambda c: reader_oracle(c, stats), ctx.seed, ctx.n(12000, 300000), stats)
    else:
        v = run_given(lp_case(), lambda c: roundtrip_oracle(c, stats), ctx.seed, ctx.n(6000, 120000), stats)
        if not v:
            for k in range(3):
                nonlp_oracle(dict(k=k), stats)
    return [v] if v else []


def replay(case, part):
    try:
        if part in ("reader", "fuzz"):
            reader_oracle(case)
        elif "k" in case and len(case) == 1:
            nonlp_oracle(case)
        else:
            roundtrip_oracle(case)
    except Violation as v:
        return v.msg
    return None
