"""C12 — op.solve() solves the piecewise-linear problem that was written down."""
import numpy as np
from hypothesis import strategies as st
from vlib.harness import Violation, run_given
from vlib import ref_model as rm, ref_lp

from cvxopt import matrix
from cvxopt import modeling as M
from cvxopt.modeling import variable, op

OPTS = {"show_progress": False, "glpk": {"msg_lev": "GLP_MSG_OFF"}}
BOX = 8.0


@st.composite
def case_strategy(draw):
    nv = draw(st.integers(1, 3))
    lens = [draw(st.integers(1, 3)) for _ in range(nv)]
    kind = draw(st.sampled_from(["feas", "feas", "feas", "feas", "infeas", "unbounded", "simplex"]))
    x0 = [[draw(st.sampled_from(rm.DY)) for _ in range(l)] for l in lens]
    d = draw(st.integers(1, 3))
    objective = draw(rm.gen(lens, 1, draw(st.sampled_from(["convex", "convex", "affine"])), d))
    cons = []
    for _ in range(draw(st.integers(0, 3))):
        ctype = draw(st.sampled_from(["le", "le", "ge", "eq", "novar"]))
        L = draw(st.sampled_from([1, 2, 3]))
        if ctype == "eq":
            t = draw(rm.gen(lens, L, "affine", draw(st.integers(0, 2))))
        elif ctype == "ge":
            t = draw(rm.gen(lens, L, "concave", draw(st.integers(1, 3))))
        else:
            t = draw(rm.gen(lens, L, "convex", draw(st.integers(1, 3))))
        cons.append(dict(type=ctype, tree=t, slack=draw(st.sampled_from([0.5, 1.0, 2.0])),
                         scalar_rhs=draw(st.booleans())))
    if kind == "simplex":
        cons = cons if draw(st.booleans()) else []
    shared = None
    if draw(st.integers(0, 3)) == 0:
        # one function object g = M*x_k (square M) used twice: inside  x_k + g <= .  and on its own in  g <= .
        k = draw(st.integers(0, nv - 1))
        shared = dict(var=k, M=[[draw(st.sampled_from(rm.DY)) for _ in range(lens[k])] for _ in range(lens[k])],
                      slack=draw(st.sampled_from([0.5, 1.0, 2.0])), left_first=draw(st.booleans()))
    return dict(lens=lens, kind=kind, x0=x0, objective=objective, cons=cons, total=draw(st.sampled_from([1.0, 1.0, 4.0, 25.0])), shared=shared,
                format=draw(st.sampled_from(["dense", "sparse"])), solver=draw(st.sampled_from(["default", "default", "glpk"])),
                sparse=draw(st.booleans()), ub_var=draw(st.integers(0, nv - 1)),
                maxit=draw(st.sampled_from([None] * 7 + [1, 2])))


def model(case):
    """Builds (a) the list of reference constraints as trees 't <= 0' / 't == 0' with constants folded in and
    (b) the cvxopt op with the same objective and constraints."""
    lens = case["lens"]
    x0 = [np.array(v, dtype=float) for v in case["x0"]]
    xs = [variable(l, "x%d" % i) for i, l in enumerate(lens)]
    flags = dict(sparse=case["sparse"])
    ref_ineq, ref_eq, cv_cons, meta = [], [], [], []
    kind = case["kind"]

    def add_ineq(tree_le0, cvx_c):
        ref_ineq.append(tree_le0)
        cv_cons.append(cvx_c)
        meta.append("i")
    if kind == "simplex":
        # homogeneous inequalities x >= 0 and one equality with a non-zero constant, sum of all components = total:
        # a bounded problem whose matrix form has h = 0, b != 0 (no box)
        x0 = [np.abs(v) + 0.5 for v in x0]
        tot = float(sum(float(np.sum(v)) for v in x0))
        x0 = [v * (case.get("total", 1.0) / tot) for v in x0]
        ssum = ["sum", ["var", 0]]
        fsum = None
        for k, l in enumerate(lens):
            add_ineq(["neg", ["var", k]], xs[k] >= 0.0)
            if k:
                ssum = ["add", ssum, ["sum", ["var", k]]]
        from cvxopt.modeling import sum as msum
        fsum = msum(xs[0])
        for k in range(1, len(lens)):
            fsum = fsum + msum(xs[k])
        ref_eq.append(["sub", ssum, ["const", [case.get("total", 1.0)]]])
        cv_cons.append(fsum == float(case.get("total", 1.0)))
        meta.append("e")
    # box (absent in the unbounded and simplex variants)
    elif kind != "unbounded":
        for k, l in enumerate(lens):
            add_ineq(["sub", ["var", k], ["const", [BOX] * l]], xs[k] <= BOX)
            add_ineq(["sub", ["const", [-BOX] * l], ["var", k]], xs[k] >= -BOX)
    for c in case["cons"]:
        t = c["tree"]
        if c["type"] == "novar":
            t = ["smul", 0.0, ["index", ["var", 0], ["int", 0]]]        # constraint without variables: 0*x <= rhs
        L, curv, v0 = rm.evaluate(t, lens, x0)
        if c["type"] in ("le", "novar"):
            rhs = v0 + c["slack"]
            if c["scalar_rhs"]:
                rhs = np.full(L, float(np.max(rhs)))
            f = rm.build(t, xs, flags)
            rhs_c = float(rhs[0]) if (c["scalar_rhs"] or L == 1) else rm.cvx_col(rhs)
            add_ineq(["sub", t, ["const", rhs.tolist()]], f <= rhs_c)
        elif c["type"] == "ge":
            rhs = v0 - c["slack"]
            if c["scalar_rhs"]:
                rhs = np.full(L, float(np.min(rhs)))
            f = rm.build(t, xs, flags)
            rhs_c = float(rhs[0]) if (c["scalar_rhs"] or L == 1) else rm.cvx_col(rhs)
            add_ineq(["sub", ["const", rhs.tolist()], t], f >= rhs_c)
        else:
            f = rm.build(t, xs, flags)
            ref_eq.append(["sub", t, ["const", v0.tolist()]])
            cv_cons.append(f == (float(v0[0]) if L == 1 else rm.cvx_col(v0)))
            meta.append("e")
    sh = case.get("shared")
    if sh and kind in ("feas", "simplex"):
        k = sh["var"]
        tg = ["matmul", sh["M"], ["var", k]]
        g = rm.build(tg, xs, flags)                      # ONE object, used in two constraints
        _, _, vg = rm.evaluate(tg, lens, x0)
        tsum = ["add", ["var", k], tg] if sh["left_first"] else ["add", tg, ["var", k]]
        _, _, vs = rm.evaluate(tsum, lens, x0)
        hsum = (xs[k] + g) if sh["left_first"] else (g + xs[k])
        add_ineq(["sub", tsum, ["const", (vs + sh["slack"]).tolist()]], hsum <= rm.cvx_col(vs + sh["slack"]))
        add_ineq(["sub", tg, ["const", (vg + sh["slack"]).tolist()]], g <= rm.cvx_col(vg + sh["slack"]))
    objective = case["objective"]
    if kind == "infeas":
        k = case["ub_var"]
        add_ineq(["sub", ["index", ["var", k], ["int", 0]], ["const", [x0[k][0] - 1.0]]], xs[k][0] <= float(x0[k][0] - 1.0))
        add_ineq(["sub", ["const", [x0[k][0] + 1.0]], ["index", ["var", k], ["int", 0]]], xs[k][0] >= float(x0[k][0] + 1.0))
    if kind == "unbounded":
        # only upper bounds, objective sum of all variables: unbounded below (constraints from `cons` are dropped
        # unless they are upper bounds on affine trees, to keep the instance clearly unbounded)
        ref_ineq, ref_eq, cv_cons, meta = [], [], [], []
        for k, l in enumerate(lens):
            add_ineq(["sub", ["var", k], ["const", [BOX] * l]], xs[k] <= BOX)
        objective = ["sum", ["var", 0]]
        for k in range(1, len(lens)):
            objective = ["add", objective, ["sum", ["var", k]]]
    fobj = rm.build(objective, xs, flags)
    return xs, objective, fobj, ref_ineq, ref_eq, cv_cons, meta


def oracle(case, stats=None):
    lens = case["lens"]
    try:
        xs, objective, fobj, ref_ineq, ref_eq, cv_cons, meta = model(case)
    except rm.Invalid:
        if stats is not None:
            stats.evaluated(case, False, ["skipped:invalid_tree"])
        return
    except Violation:
        raise
    except Exception as e:
        # the reference accepted the tree as a valid model: cvxopt refusing to build it is a violation, not a harness error
        raise Violation("building the op of a valid model raised %s: %s" % (type(e).__name__, e))
    labels = ["kind:" + case["kind"], "format:" + case["format"], "solver:" + case["solver"]]
    st_ref, p_ref, x_ref = ref_lp.solve_problem(lens, objective, ref_ineq, ref_eq)
    if st_ref == "other":
        if stats is not None:
            stats.evaluated(case, False, labels + ["skipped:highs_other"])
        return
    if case["kind"] in ("feas", "simplex") and st_ref != "optimal":
        raise RuntimeError("generator/oracle inconsistency: planted feasible boxed problem but HiGHS says %s" % st_ref)
    P = op(fobj, cv_cons)
    opts = dict(OPTS, maxiters=case["maxit"]) if case.get("maxit") else OPTS
    try:
        P.solve(case["format"], case["solver"], options=opts)
    except ValueError as e:
        if "Rank" in str(e) and case["solver"] == "default":
            # documented requirement of the LP solver: Rank(A) = p.  Legitimate iff the equality rows written
            # down are linearly dependent (the box rows give [G; A] full column rank).
            B = ref_lp.Builder(lens)
            rows = [r for t in ref_eq for r in B.bound(t, True)]
            Aeq, _ = ref_lp.dense(rows, B.ncols)
            if len(rows) and np.linalg.matrix_rank(Aeq) < len(rows):
                if stats is not None:
                    stats.evaluated(case, False, labels + ["refused:dependent_equalities"])
                return
        raise Violation("op.solve(%s, %s) raised %s: %s (independent LP: %s)" % (case["format"], case["solver"], type(e).__name__, e, st_ref))
    except Exception as e:
        raise Violation("op.solve(%s, %s) raised %s: %s (independent LP: %s)" % (case["format"], case["solver"], type(e).__name__, e, st_ref))
    status = P.status
    labels.append("status:" + str(status))
    want = {"optimal": "optimal", "infeasible": "primal infeasible", "unbounded": "dual infeasible"}[st_ref]
    if status == "unknown":
        # "If the problem was not solved successfully, self.status is set to 'unknown'.  The value attributes of the
        # variables and the constraint multipliers are set to None."
        left = ["variable %d" % k for k, x in enumerate(xs) if x.value is not None and any(x is v for v in P.variables())] + \
               ["multiplier of constraint %d" % k for k, c in enumerate(cv_cons) if c.multiplier.value is not None]
        if left:
            raise Violation("op.status = 'unknown' (maxiters = %r) but values are left in: %s" % (case.get("maxit"), ", ".join(left[:4])))
        if stats is not None:
            stats.evaluated(case, False, labels + ["solver_unknown"])
        return
    if status != want:
        raise Violation("op.status = %r but the independently formed LP is %s" % (status, st_ref))
    nontrivial = False
    if status == "optimal":
        vals = []
        for x in xs:
            if x.value is None:
                raise Violation("'optimal' but a variable has value None")
            vals.append(np.array(list(x.value), dtype=float))
        scale = 1.0 + max(float(np.max(np.abs(v))) for v in vals)
        for t in ref_ineq:
            _, _, v = rm.evaluate(t, lens, vals)
            if np.max(v) > 1e-5 * scale:
                raise Violation("'optimal' values violate an inequality of the problem by %.3e: %r" % (float(np.max(v)), t))
        for t in ref_eq:
            _, _, v = rm.evaluate(t, lens, vals)
            if np.max(np.abs(v)) > 1e-5 * scale:
                raise Violation("'optimal' values violate an equality of the problem by %.3e: %r" % (float(np.max(np.abs(v))), t))
        ov = P.objective.value()
        _, _, oref = rm.evaluate(objective, lens, vals)
        if ov is None or abs(float(ov[0]) - float(oref[0])) > 1e-9 * (1 + abs(float(oref[0]))):
            raise Violation("objective.value() = %r but the objective formula at the returned values is %r" % (ov and ov[0], oref[0]))
        if abs(float(ov[0]) - p_ref) > 1e-5 * (1 + abs(p_ref)):
            raise Violation("objective.value() = %.9g but the optimum of the independent LP is %.9g" % (float(ov[0]), p_ref))
        if case["solver"] == "default":
            lam, nu = [], []
            for c, m in zip(cv_cons, meta):
                mv = c.multiplier.value
                if mv is None:
                    raise Violation("'optimal' but a multiplier is None")
                mv = np.array(list(mv), dtype=float)
                if len(mv) != len(c):
                    raise Violation("multiplier has length %d, its constraint has length %d" % (len(mv), len(c)))
                if m == "i":
                    if mv.min() < -1e-6 * (1 + np.abs(mv).max()):
                        raise Violation("multiplier of an inequality is negative: %r" % mv.tolist())
                    lam.append(np.maximum(mv, 0.0))
                else:
                    nu.append(mv)
            # dual validity: the Lagrangian minimised over a unit box around the solution must reach the optimum
            ctr = np.concatenate(vals)
            stL, g, _ = ref_lp.solve_problem(lens, objective, ref_ineq, ref_eq, weights=dict(ineq=lam, eq=nu), box=(ctr, 1.0))
            if stL == "optimal":
                msum = sum(float(np.sum(np.abs(l))) for l in lam + nu) + 1.0
                tol = 1e-5 * (1 + abs(p_ref)) * msum * 4
                if g < p_ref - tol:
                    raise Violation("multipliers are not a dual solution: min over a unit box of the Lagrangian = %.9g "
                                    "< optimal value %.9g" % (g, p_ref))
                if g > p_ref + tol:
                    raise Violation("Lagrangian value %.9g exceeds the optimal value %.9g (weak duality)" % (g, p_ref))
                labels.append("dual_checked")
        nontrivial = len(xs) >= 2 and any(t[0] not in ("var",) for t in [objective])
    else:
        if case["solver"] == "glpk" or status == "primal infeasible":
            if any(x.value is not None for x in xs):
                raise Violation("%s (%s) but variable values are not None" % (status, case["solver"]))
        if case["solver"] == "glpk" or status == "dual infeasible":
            if any(c.multiplier.value is not None for c in cv_cons):
                raise Violation("%s (%s) but multipliers are not None" % (status, case["solver"]))
        nontrivial = True
    if stats is not None:
        stats.evaluated(case, nontrivial, labels)


def search(ctx, stats):
    v = run_given(case_strategy(), lambda c: oracle(c, stats), ctx.seed, ctx.n(8000, 150000), stats)
    return [v] if v else []


def replay(case, part):
    try:
        oracle(case)
    except Violation as v:
        return v.msg
    return None
