"""C15 — dense matrices behave like the column-major arrays the manual describes."""
import math, cmath
from hypothesis import strategies as st
from vlib.harness import Violation, run_given
from vlib import ref_dense as rd
from vlib.ref_dense import MM, ModelError

import cvxopt
from cvxopt import matrix, spmatrix

EXC = (IndexError, TypeError, ValueError, ZeroDivisionError, ArithmeticError, OverflowError, NotImplementedError)


# ------------------------------------------------------------------ encodings

def num_st(tc):
    if tc == "i":
        return st.integers(-6, 6)
    if tc == "d":
        return st.integers(-8, 8).map(lambda k: k / 2.0)
    return st.tuples(st.integers(-4, 4), st.integers(-4, 4)).map(lambda p: [p[0] / 2.0, p[1] / 2.0])


def dec(tc, v):
    if tc == "z":
        return complex(v[0], v[1])
    return v


@st.composite
def mat_st(draw, tc=None, m=None, n=None, maxdim=3):
    tc = tc or draw(st.sampled_from("iddz"))
    m = draw(st.integers(0, maxdim)) if m is None else m
    n = draw(st.integers(0, maxdim)) if n is None else n
    return dict(tc=tc, m=m, n=n, v=[draw(num_st(tc)) for _ in range(m * n)])


def to_model(s):
    return MM(s["tc"], s["m"], s["n"], [dec(s["tc"], v) for v in s["v"]])


def to_cvx(s):
    return matrix([dec(s["tc"], v) for v in s["v"]], (s["m"], s["n"]), s["tc"])


@st.composite
def number_st(draw):
    tc = draw(st.sampled_from("iidz"))
    return dict(tc=tc, x=draw(num_st(tc)))


def num_val(s):
    return dec(s["tc"], s["x"])


@st.composite
def key_st(draw, n):
    kind = draw(st.sampled_from(["int", "int", "slice", "slice", "list", "imat"]))
    lo, hi = -n - 1, n
    if kind == "int":
        return ["int", draw(st.integers(lo, hi))]
    if kind == "slice":
        def e():
            return draw(st.one_of(st.none(), st.integers(-n - 2, n + 2)))
        step = draw(st.sampled_from([None, 1, 2, -1, -2, 3]))
        return ["slice", e(), e(), step]
    k = draw(st.integers(0, 4))
    inr = st.integers(-n, n - 1) if n else st.integers(0, 0)
    vals = [draw(st.one_of(inr, inr, inr, st.integers(lo, hi))) for _ in range(k)]
    if kind == "imat" and draw(st.booleans()):
        shapes = [(1, k)] + [(r, k // r) for r in (2, 3) if k % r == 0]
        return [kind, vals, list(draw(st.sampled_from(shapes)))]
    return [kind, vals]


def key_obj(key):
    k = key[0]
    if k == "int":
        return key[1]
    if k == "slice":
        return slice(key[1], key[2], key[3])
    if k == "list":
        return list(key[1])
    # "the size of the index matrix is ignored" (matrices.rst): rows, columns and rectangles of indices
    return matrix(list(key[1]), tuple(key[2]) if len(key) > 2 else (len(key[1]), 1), "i")


@st.composite
def case_strategy(draw):
    op = draw(st.sampled_from(["cnum", "cseq", "cmat", "cblocks", "get1", "get2", "set1", "set2", "bin", "bin", "bin", "rbin",
                               "pow", "mod", "imod", "unary", "resize", "builtin", "elem", "elemnum", "inplace", "inplace", "cbuf"]))
    c = dict(op=op)
    if op == "cbuf":
        # construction from objects that export the buffer protocol (numpy arrays and views with any strides and
        # memory order, array.array, memoryviews, casts): generator and oracle are shared with C20
        from checks import c20
        c["imp"] = draw(c20.import_st())
        return c
    if op == "elemnum":
        # the elementwise functions with scalar arguments only ("the arguments must be matrices of the same size, or scalars")
        pool = st.one_of(st.integers(-6, 6), st.integers(-6, 6).map(lambda k: k / 2.0),
                         st.sampled_from([2 ** 31, 2 ** 40, -2 ** 40 - 1, 2 ** 31 - 1, 3 * 2 ** 32]))
        c.update(f=draw(st.sampled_from(["mul", "div", "max", "min"])), a=draw(pool), b=draw(pool))
        return c
    if op == "cnum":
        c.update(x=draw(number_st()), size=draw(st.one_of(st.none(), st.tuples(st.integers(0, 3), st.integers(0, 3)))),
                 tc=draw(st.sampled_from([None, None, "i", "d", "z"])))
    elif op == "cseq":
        tc = draw(st.sampled_from("iddz"))
        n = draw(st.integers(0, 6))
        vals = [draw(num_st(draw(st.sampled_from("i" if tc == "i" else ("id" if tc == "d" else "idz"))))) for _ in range(n)]
        c.update(kind=draw(st.sampled_from(["list", "tuple"])), vals=vals,
                 size=draw(st.one_of(st.none(), st.sampled_from([(n, 1), (1, n), (2, 3), (3, 2), (0, 0), (n // 2 if n % 2 == 0 else n, 2 if n % 2 == 0 else 1)]))),
                 tc=draw(st.sampled_from([None, None, "i", "d", "z"])))
    elif op == "cmat":
        A = draw(mat_st())
        L = A["m"] * A["n"]
        c.update(A=A, size=draw(st.one_of(st.none(), st.sampled_from([(L, 1), (1, L), (A["n"], A["m"]), (2, 2), (3, 1)]))),
                 tc=draw(st.sampled_from([None, None, "i", "d", "z"])))
    elif op == "cblocks":
        ncol = draw(st.integers(1, 3))
        h = draw(st.integers(1, 3))
        cols = []
        for _ in range(ncol):
            w = draw(st.integers(1, 2))
            blocks, left = [], h
            while left > 0:
                bh = draw(st.integers(1, left))
                if w == 1 and bh == 1 and draw(st.booleans()):
                    blocks.append(dict(num=draw(number_st())))
                else:
                    blocks.append(dict(mat=draw(mat_st(m=bh, n=w)), sp=draw(st.integers(0, 2)) == 0))     # sp: given as spmatrix
                left -= bh
            cols.append(blocks)
        if draw(st.integers(0, 5)) == 0:
            cols[-1].append(dict(mat=draw(mat_st(m=1, n=1))))     # ragged: must be refused
        c.update(cols=cols)
    elif op in ("get1", "set1"):
        A = draw(mat_st())
        c.update(A=A, key=draw(key_st(A["m"] * A["n"])))
    elif op in ("get2", "set2"):
        A = draw(mat_st())
        c.update(A=A, key=draw(key_st(A["m"])), key2=draw(key_st(A["n"])))
    if op in ("set1", "set2"):
        A = c["A"]
        try:
            if op == "set1":
                cnt = (len(rd.idx_list(c["key"], A["m"] * A["n"])), 1)
            else:
                cnt = (len(rd.idx_list(c["key"], A["m"])), len(rd.idx_list(c["key2"], A["n"])))
        except ModelError:
            cnt = (1, 1)
        kind = draw(st.sampled_from(["num", "mat", "mat", "list", "mat1x1", "matwrong", "spmat", "spwrong"]))
        if kind == "num":
            c["rhs"] = dict(num=draw(number_st()))
        elif kind == "mat":
            c["rhs"] = dict(mat=draw(mat_st(m=cnt[0], n=cnt[1])))
        elif kind == "mat1x1":
            c["rhs"] = dict(mat=draw(mat_st(m=1, n=1)))
        elif kind == "matwrong":
            c["rhs"] = dict(mat=draw(mat_st()))
        elif kind == "spmat":
            c["rhs"] = dict(mat=draw(mat_st(tc=draw(st.sampled_from("dz")), m=cnt[0], n=cnt[1])), sparse=True)
        elif kind == "spwrong":
            c["rhs"] = dict(mat=draw(mat_st(tc=draw(st.sampled_from("dz")))), sparse=True)
        else:
            tcl = draw(st.sampled_from("idz"))
            c["rhs"] = dict(lst=[draw(num_st(tcl)) for _ in range(cnt[0] * cnt[1] + draw(st.sampled_from([0, 0, 0, 1])))], tc=tcl)
    if op in ("bin", "rbin", "inplace"):
        A = draw(mat_st())
        bop = draw(st.sampled_from(["add", "sub", "mul", "div"]))
        kind = draw(st.sampled_from(["same", "same", "conf", "num", "one", "any"]))
        if kind == "same":
            B = dict(mat=draw(mat_st(m=A["m"], n=A["n"])))
        elif kind == "conf":
            B = dict(mat=draw(mat_st(m=A["n"])))
        elif kind == "num":
            B = dict(num=draw(number_st()))
        elif kind == "one":
            B = dict(mat=draw(mat_st(m=1, n=1)))
        else:
            B = dict(mat=draw(mat_st()))
        c.update(A=A, B=B, bop=bop, alias=draw(st.booleans()))
    if op == "pow":
        c.update(A=draw(mat_st(tc=draw(st.sampled_from("idz")))), e=draw(st.sampled_from([2, 3, 0, 1, 0.5, -1, 2.0])))
    if op == "mod":
        A = draw(mat_st(tc=draw(st.sampled_from("id"))))
        A["v"] = [abs(v) for v in A["v"]]
        c.update(A=A, c=draw(st.sampled_from([1, 2, 3, 2.0, 1.5])), as_matrix=draw(st.booleans()))
    if op == "imod":
        A = draw(mat_st(tc=draw(st.sampled_from("id"))))
        A["v"] = [abs(v) for v in A["v"]]
        c.update(A=A, c=draw(st.sampled_from([1, 2, 3, 2.0, 1.5, 0, 0.0])), as_matrix=draw(st.booleans()))
    if op == "unary":
        c.update(A=draw(mat_st()), f=draw(st.sampled_from(["neg", "pos", "abs", "T", "H", "trans", "ctrans", "real", "imag"])))
    if op == "resize":
        A = draw(mat_st())
        L = A["m"] * A["n"]
        c.update(A=A, size=draw(st.sampled_from([(L, 1), (1, L), (A["n"], A["m"]), (2, 2), (1, 1), (0, 3)])))
    if op == "builtin":
        c.update(A=draw(mat_st()), f=draw(st.sampled_from(["len", "bool", "max", "min", "sum", "list", "in", "iter"])),
                 x=draw(number_st()))
    if op == "elem":
        f = draw(st.sampled_from(["sqrt", "exp", "log", "sin", "cos", "mul", "div", "max", "min"]))
        A = draw(mat_st(tc=draw(st.sampled_from("idz" if f in ("exp", "sin", "cos", "mul") else "id"))))
        c.update(A=A, f=f, B=draw(mat_st(tc=draw(st.sampled_from("id")), m=A["m"], n=A["n"])))
    return c


# ------------------------------------------------------------------ comparison

def same_number(a, b, approx=False):
    if type(a) is bool or type(b) is bool:
        return False
    if isinstance(a, complex) or isinstance(b, complex):
        if not (isinstance(a, complex) and isinstance(b, complex)):
            return False
    elif type(a) is not type(b):
        return False
    if approx:
        return abs(a - b) <= 1e-12 * (1 + abs(b))
    return a == b


def compare(got, want, approx=False):
    """None if equal, else message."""
    if isinstance(want, MM):
        if not isinstance(got, matrix):
            return "result is %s, model gives a '%s' matrix of size (%d,%d)" % (type(got).__name__, want.tc, want.m, want.n)
        if got.typecode != want.tc:
            return "typecode %r, model %r" % (got.typecode, want.tc)
        if got.size != (want.m, want.n):
            return "size %r, model (%d,%d)" % (got.size, want.m, want.n)
        gv = list(got)
        for k, (a, b) in enumerate(zip(gv, want.v)):
            if not same_number(a, b, approx):
                return "element %d is %r, model %r (all: %r vs %r)" % (k, a, b, gv[:9], want.v[:9])
        return None
    if isinstance(want, (list, tuple)):
        if list(got) != list(want) or any(not same_number(a, b) for a, b in zip(got, want)):
            return "%r, model %r" % (got, want)
        return None
    if isinstance(want, bool):
        return None if got is want else "%r, model %r" % (got, want)
    if rd.is_scalar(want):
        return None if same_number(got, want, approx) else "%r (%s), model %r (%s)" % (got, type(got).__name__, want, type(want).__name__)
    return None if got == want else "%r, model %r" % (got, want)


def run_both(case):
    """-> (model_fn, real_fn, extra) ; each returns the result or raises."""
    op = case["op"]
    if op == "cnum":
        x = num_val(case["x"])
        size = tuple(case["size"]) if case["size"] is not None else None
        kw = {}
        if size is not None:
            kw["size"] = size
        if case["tc"]:
            kw["tc"] = case["tc"]
        return (lambda: rd.construct(x, size, case["tc"])), (lambda: matrix(x, **kw)), {}
    if op == "cseq":
        vals = [complex(v[0], v[1]) if isinstance(v, list) else v for v in case["vals"]]
        seq = list(vals) if case["kind"] == "list" else tuple(vals)
        size = tuple(case["size"]) if case["size"] is not None else None
        kw = {}
        if size is not None:
            kw["size"] = size
        if case["tc"]:
            kw["tc"] = case["tc"]
        return (lambda: rd.construct(seq, size, case["tc"])), (lambda: matrix(seq, **kw)), {}
    if op == "cmat":
        size = tuple(case["size"]) if case["size"] is not None else None
        kw = {}
        if size is not None:
            kw["size"] = size
        if case["tc"]:
            kw["tc"] = case["tc"]
        A = to_cvx(case["A"])
        return (lambda: rd.construct(to_model(case["A"]), size, case["tc"])), (lambda: matrix(A, **kw)), {"operands": [A]}
    if op == "cblocks":
        mcols = [[to_model(b["mat"]) if "mat" in b else num_val(b["num"]) for b in col] for col in case["cols"]]
        def blk(b):
            if "mat" not in b:
                return num_val(b["num"])
            M_ = to_cvx(b["mat"])
            if b.get("sp") and M_.typecode != "i":
                from cvxopt import sparse as _sparse
                return _sparse(M_)            # same dense image; the manual allows dense or sparse blocks
            return M_
        rcols = [[blk(b) for b in col] for col in case["cols"]]
        return (lambda: rd.construct_blocks(mcols)), (lambda: matrix(rcols)), {}
    if op in ("get1", "get2"):
        A = to_cvx(case["A"])
        if op == "get1":
            return (lambda: rd.getitem(to_model(case["A"]), case["key"])), (lambda: A[key_obj(case["key"])]), {"operands": [A]}
        return (lambda: rd.getitem(to_model(case["A"]), case["key"], case["key2"])), \
               (lambda: A[key_obj(case["key"]), key_obj(case["key2"])]), {"operands": [A]}
    raise AssertionError(op)


def check_result(case, mfn, rfn, extra, approx=False):
    try:
        want = mfn()
        mexc = None
    except rd.Unspecified:
        return "unspecified"
    except ModelError as e:
        want, mexc = None, e
    try:
        got = rfn()
        rexc = None
    except EXC as e:
        got, rexc = None, e
    if mexc is not None:
        if rexc is None:
            raise Violation("%s: the documented rules give no answer (%s) but cvxopt returned %r" % (case["op"], mexc, got if not isinstance(got, matrix) else (got.typecode, got.size, list(got)[:9])))
        if mexc.kind and type(rexc).__name__ != mexc.kind:
            # class mismatch: documented classes are IndexError for indices, TypeError/ValueError otherwise
            if mexc.kind == "IndexError" or type(rexc).__name__ == "IndexError":
                raise Violation("%s: raised %s: %s where the documented class is %s" % (case["op"], type(rexc).__name__, rexc, mexc.kind))
        return "refused"
    if rexc is not None:
        raise Violation("%s: cvxopt raised %s: %s, the model computes %r" % (case["op"], type(rexc).__name__, rexc, want))
    msg = compare(got, want, approx)
    if msg:
        raise Violation("%s: %s -- case %r" % (case["op"], msg, {k: v for k, v in case.items() if k != "op"}))
    for o in extra.get("operands", []):
        if got is o:
            raise Violation("%s returned one of its operands instead of a new object" % case["op"])
    return "ok"


def oracle(case, stats=None):
    op = case["op"]
    labels = ["op:" + op]
    approx = False
    if op in ("cnum", "cseq", "cmat", "cblocks", "get1", "get2"):
        mfn, rfn, extra = run_both(case)
        out = check_result(case, mfn, rfn, extra)
    elif op in ("set1", "set2"):
        Am, A = to_model(case["A"]), to_cvx(case["A"])
        r = case["rhs"]
        if "num" in r:
            mr = rr = num_val(r["num"])
        elif "mat" in r:
            mr, rr = to_model(r["mat"]), to_cvx(r["mat"])
            if r.get("sparse"):
                from cvxopt import sparse as _sparse
                if (mr.m, mr.n) == (1, 1):
                    # only a 1x1 DENSE matrix is documented to act as a scalar
                    if stats is not None:
                        stats.evaluated(case, False, labels + ["unspecified:1x1_sparse_rhs"])
                    return
                rr = _sparse(rr)
        else:
            mr = rr = [dec(r["tc"], v) for v in r["lst"]]
        alias = A
        before = list(A)

        def mfn():
            if op == "set1":
                rd.setitem(Am, mr, case["key"])
            else:
                rd.setitem(Am, mr, case["key"], case["key2"])
            return Am

        def rfn():
            if op == "set1":
                A[key_obj(case["key"])] = rr
            else:
                A[key_obj(case["key"]), key_obj(case["key2"])] = rr
            return A
        try:
            out = check_result(case, mfn, rfn, {})
        except Violation:
            raise
        if out == "refused" and list(A) != before:
            raise Violation("%s: refused assignment modified the matrix: %r -> %r" % (op, before, list(A)))
        if alias is not A:
            raise Violation("assignment rebinds")
    elif op in ("bin", "rbin"):
        A, Am = to_cvx(case["A"]), to_model(case["A"])
        B = case["B"]
        if "num" in B:
            Bm = Bc = num_val(B["num"])
        else:
            Bm, Bc = to_model(B["mat"]), to_cvx(B["mat"])
        if op == "rbin":
            Am, Bm, A, Bc = Bm, Am, Bc, A
        bop = case["bop"]
        if not isinstance(Am, MM) and not isinstance(Bm, MM):
            return
        mf = {"add": lambda: rd.addsub(Am, Bm, 1), "sub": lambda: rd.addsub(Am, Bm, -1), "mul": lambda: rd.mul(Am, Bm),
              "div": lambda: rd.div(Am, Bm)}[bop]
        rf = {"add": lambda: A + Bc, "sub": lambda: A - Bc, "mul": lambda: A * Bc, "div": lambda: A / Bc}[bop]
        ops_ = [o for o in (A, Bc) if isinstance(o, matrix)]
        snap = [list(o) for o in ops_]
        out = check_result(case, mf, rf, {"operands": ops_}, approx=(bop == "div"))
        if [list(o) for o in ops_] != snap:
            raise Violation("%s %s modified an operand" % (op, bop))
        labels.append("bop:" + bop)
    elif op == "inplace":
        A, Am = to_cvx(case["A"]), to_model(case["A"])
        B = case["B"]
        if "num" in B:
            Bm = Bc = num_val(B["num"])
        else:
            Bm, Bc = to_model(B["mat"]), to_cvx(B["mat"])
        alias = A
        before = list(A)
        bop = case["bop"]
        box = {"A": A}

        def rfn():
            a = box["A"]
            if bop == "add":
                a += Bc
            elif bop == "sub":
                a -= Bc
            elif bop == "mul":
                a *= Bc
            else:
                a /= Bc
            box["A"] = a
            return a
        out = check_result(case, lambda: rd.inplace(Am, bop, Bm), rfn, {}, approx=(bop == "div"))
        if out == "ok":
            if box["A"] is not alias:
                raise Violation("in-place %s created a new object instead of modifying the matrix" % bop)
            if list(alias) != list(box["A"]):
                raise Violation("in-place %s is not visible through an alias" % bop)
        elif list(alias) != before:
            raise Violation("refused in-place %s modified the matrix" % bop)
        labels.append("iop:" + bop)
    elif op == "pow":
        A, Am = to_cvx(case["A"]), to_model(case["A"])
        out = check_result(case, lambda: rd.power(Am, case["e"]), lambda: A ** case["e"], {"operands": [A]}, approx=True)
    elif op == "mod":
        A, Am = to_cvx(case["A"]), to_model(case["A"])
        c_ = case["c"]
        cm = matrix(c_) if case["as_matrix"] else c_

        def mfn():
            t = rd.promote(Am.tc, rd.tc_of_number(c_))
            return MM(t, Am.m, Am.n, [rd.conv(math.fmod(v, c_) if t == "d" else v % c_, t) for v in Am.v])
        out = check_result(case, mfn, lambda: A % cm, {"operands": [A]})
    elif op == "imod":
        # in-place remainder: allowed exactly when the type does not change; division by zero must leave A intact
        A, Am = to_cvx(case["A"]), to_model(case["A"])
        c_ = case["c"]
        cm = matrix(c_) if case["as_matrix"] else c_
        alias, before = A, list(A)
        t = rd.promote(Am.tc, rd.tc_of_number(c_))
        box = {"A": A}
        try:
            a = box["A"]
            a %= cm
            box["A"] = a
            err = None
        except EXC as e:
            err = e
        churn = [matrix(7, (2, 2)) for _ in range(8)]         # reuse of freed storage would show up in A
        del churn
        if c_ == 0:
            if t == Am.tc and len(before) and not isinstance(err, ZeroDivisionError):
                raise Violation("A %%= 0 on a %r matrix: %r instead of ZeroDivisionError" % (Am.tc, err))
            if list(alias) != before:
                raise Violation("A %%= 0 changed the matrix: %r -> %r" % (before, list(alias)))
            out = "refused"
        elif t != Am.tc:
            if err is None and alias.typecode != Am.tc:
                raise Violation("A %%= %r changed the typecode of A in place from %r to %r" % (c_, Am.tc, alias.typecode))
            if not isinstance(err, TypeError):
                raise Violation("A %%= %r on a %r matrix would change the type: expected TypeError, got %r" % (c_, Am.tc, err))
            if list(alias) != before:
                raise Violation("refused A %%= %r changed the matrix" % (c_,))
            out = "refused"
        else:
            if err is not None:
                raise Violation("A %%= %r raised %s: %s" % (c_, type(err).__name__, err))
            if box["A"] is not alias:
                raise Violation("in-place remainder created a new object")
            want = [rd.conv(math.fmod(v, c_) if t == "d" else v % c_, t) for v in Am.v]
            if list(alias) != want or alias.typecode != Am.tc or alias.size != (Am.m, Am.n):
                raise Violation("A %%= %r gave %r, expected %r" % (c_, list(alias), want))
            out = "ok"
        labels.append("imod:" + out)
    elif op == "unary":
        A, Am = to_cvx(case["A"]), to_model(case["A"])
        f = case["f"]
        mf = {"neg": lambda: rd.neg(Am), "pos": lambda: Am.copy(), "abs": lambda: rd.mabs(Am),
              "T": lambda: rd.transpose(Am), "trans": lambda: rd.transpose(Am), "H": lambda: rd.transpose(Am, True),
              "ctrans": lambda: rd.transpose(Am, True), "real": lambda: rd.real(Am), "imag": lambda: rd.imag(Am)}[f]
        rf = {"neg": lambda: -A, "pos": lambda: +A, "abs": lambda: abs(A), "T": lambda: A.T, "trans": lambda: A.trans(),
              "H": lambda: A.H, "ctrans": lambda: A.ctrans(), "real": lambda: A.real(), "imag": lambda: A.imag()}[f]
        snap = list(A)
        out = check_result(case, mf, rf, {"operands": [A]})
        if list(A) != snap:
            raise Violation("unary %s modified its operand" % f)
        labels.append("f:" + f)
    elif op == "resize":
        A, Am = to_cvx(case["A"]), to_model(case["A"])
        size = tuple(case["size"])

        def mfn():
            if size[0] * size[1] != len(Am):
                raise ModelError("TypeError", "number of elements cannot change")
            return MM(Am.tc, size[0], size[1], Am.v)

        def rfn():
            A.size = size
            return A
        out = check_result(case, mfn, rfn, {})
    elif op == "builtin":
        A, Am = to_cvx(case["A"]), to_model(case["A"])
        f = case["f"]
        x = num_val(case["x"])

        def mfn():
            if f == "len":
                return len(Am)
            if f == "bool":
                return any(v != 0 for v in Am.v)
            if f in ("max", "min"):
                if len(Am) == 0:
                    raise ModelError("ValueError", "empty")
                if Am.tc == "z" and len(Am) > 1:
                    raise ModelError("TypeError", "complex ordering")
                return max(Am.v) if f == "max" else min(Am.v)
            if f == "sum":
                s = 0
                for v in Am.v:
                    s = s + v
                return s
            if f in ("list", "iter"):
                return list(Am.v)
            return any(v == x for v in Am.v)
        rf = {"len": lambda: len(A), "bool": lambda: bool(A), "max": lambda: max(A), "min": lambda: min(A), "sum": lambda: sum(A),
              "list": lambda: list(A), "iter": lambda: [v for v in A], "in": lambda: x in A}[f]
        out = check_result(case, mfn, rf, {})
        labels.append("f:" + f)
    elif op == "elem":
        A, Am = to_cvx(case["A"]), to_model(case["A"])
        B, Bm = to_cvx(case["B"]), to_model(case["B"])
        f = case["f"]

        def mfn():
            if f in ("sqrt", "log"):
                if any(v < 0 or (f == "log" and v == 0) for v in Am.v):
                    raise ModelError("ValueError", "domain error")
                return MM("d", Am.m, Am.n, [getattr(math, f)(v) for v in Am.v])
            if f in ("exp", "sin", "cos"):
                if Am.tc == "z":
                    return MM("z", Am.m, Am.n, [getattr(cmath, f)(v) for v in Am.v])
                return MM("d", Am.m, Am.n, [getattr(math, f)(v) for v in Am.v])
            t = rd.promote(Am.tc, Bm.tc)
            if f == "mul":
                return MM(t, Am.m, Am.n, [rd.conv(rd.conv(a, t) * rd.conv(b, t), t) for a, b in zip(Am.v, Bm.v)])
            if f == "div":
                if any(b == 0 for b in Bm.v):
                    raise ModelError(None, "division by zero")
                t = rd.promote(t, "d")
                return MM(t, Am.m, Am.n, [rd.conv(rd.conv(a, t) / rd.conv(b, t), t) for a, b in zip(Am.v, Bm.v)])
            return MM(t, Am.m, Am.n, [rd.conv((max if f == "max" else min)(a, b), t) for a, b in zip(Am.v, Bm.v)])
        rf = {"sqrt": lambda: cvxopt.sqrt(A), "log": lambda: cvxopt.log(A), "exp": lambda: cvxopt.exp(A), "sin": lambda: cvxopt.sin(A),
              "cos": lambda: cvxopt.cos(A), "mul": lambda: cvxopt.mul(A, B), "div": lambda: cvxopt.div(A, B),
              "max": lambda: cvxopt.max(A, B), "min": lambda: cvxopt.min(A, B)}[f]
        snap = list(A)
        out = check_result(case, mfn, rf, {"operands": [A, B]}, approx=f in ("sqrt", "log", "exp", "sin", "cos", "div"))
        if list(A) != snap:
            raise Violation("elementwise %s modified its argument" % f)
        labels.append("f:" + f)
    elif op == "cbuf":
        from checks import c20
        c20.import_oracle(case["imp"], None)
        labels.append("buffer:" + case["imp"]["src"])
        out = "ok"
    elif op == "elemnum":
        f, a, b = case["f"], case["a"], case["b"]
        fn = {"mul": cvxopt.mul, "div": cvxopt.div, "max": cvxopt.max, "min": cvxopt.min}[f]
        both_int = isinstance(a, int) and isinstance(b, int)
        try:
            got = fn(a, b)
        except ArithmeticError:
            got = "refused"
        if f == "div" and b == 0:
            want = "refused"
        elif f == "div":
            want = a / b
        elif f == "mul":
            want = a * b
        else:
            want = (max if f == "max" else min)(a, b)
            want = want if both_int else float(want)
        if isinstance(want, int) and abs(want) >= 2 ** 63:
            out = "unspecified"        # beyond the range of the integer type of the library
        else:
            if got == "refused" or want == "refused":
                if got != want:
                    raise Violation("cvxopt.%s(%r, %r): %r, expected %r" % (f, a, b, got, want))
            elif not same_number(got, want, approx=(f == "div")):
                raise Violation("cvxopt.%s(%r, %r) returned %r, the scalar operation gives %r" % (f, a, b, got, want))
            out = "ok"
        labels.append("f:" + f + ":numbers")
    else:
        raise AssertionError(op)
    A_ = case.get("A")
    nontrivial = out == "ok" and A_ is not None and A_["m"] * A_["n"] > 0 and (
        op in ("bin", "rbin", "inplace", "set1", "set2") or (op in ("get1", "get2") and case["key"][0] in ("list", "imat")))
    if stats is not None:
        stats.evaluated(case, nontrivial, labels + ["outcome:" + out])


# ------------------------------------------------------------------ aliasing histories

@st.composite
def history_strategy(draw):
    n0 = draw(st.integers(1, 3))
    objs = [draw(mat_st(maxdim=3)) for _ in range(n0)]
    steps = []
    for _ in range(draw(st.integers(2, 12))):
        k = draw(st.sampled_from(["alias", "copy", "iop", "iop", "set", "set", "bop", "read"]))
        s = dict(k=k, a=draw(st.integers(0, 7)), b=draw(st.integers(0, 7)))
        if k == "copy":
            s["how"] = draw(st.sampled_from(["pos", "matrix", "slice", "T2"]))
        if k == "iop":
            s["bop"] = draw(st.sampled_from(["add", "sub", "mul", "div"]))
            s["rhs"] = draw(st.sampled_from(["name", "num", "num"]))
            s["num"] = draw(number_st())
        if k == "set":
            s["key"] = draw(st.sampled_from([["int", 0], ["int", -1], ["slice", None, None, 2], ["slice", None, None, None], ["list", [0, 0]]]))
            s["num"] = draw(number_st())
        if k == "bop":
            s["bop"] = draw(st.sampled_from(["add", "sub", "mul"]))
        steps.append(s)
    return dict(objs=objs, steps=steps)


def history_oracle(case, stats=None):
    names = []          # list of (model object, real object); several names may share one pair
    for o in case["objs"]:
        names.append([to_model(o), to_cvx(o)])
    nalias_updates = 0

    def check_all(where):
        for k, (m, r) in enumerate(names):
            msg = compare(r, m, approx=True)
            if msg:
                raise Violation("after %s: name %d: %s" % (where, k, msg))
        for i in range(len(names)):
            for j in range(len(names)):
                if (names[i][0] is names[j][0]) != (names[i][1] is names[j][1]):
                    raise Violation("after %s: aliasing of names %d and %d differs from the model" % (where, i, j))
    for idx, s in enumerate(case["steps"]):
        a = s["a"] % len(names)
        b = s["b"] % len(names)
        ma, ra = names[a]
        mb, rb = names[b]
        where = "step %d %r" % (idx, s)
        k = s["k"]
        if k == "alias":
            names.append([ma, ra])
        elif k == "copy":
            how = s["how"]
            if how == "pos":
                names.append([ma.copy(), +ra])
            elif how == "matrix":
                names.append([ma.copy(), matrix(ra)])
            elif how == "slice":
                names.append([MM(ma.tc, len(ma), 1, ma.v), ra[:]])
            else:
                names.append([rd.transpose(rd.transpose(ma)), ra.T.T])
            if names[-1][1] is ra:
                raise Violation("%s: copy returned the same object" % where)
        elif k in ("iop", "bop"):
            rhs_m, rhs_r = (mb, rb) if s.get("rhs", "name") == "name" else (num_val(s["num"]), num_val(s["num"]))
            bop = s["bop"]
            if k == "iop":
                try:
                    R = rd.inplace(ma, bop, rhs_m)
                    ok = True
                except rd.Unspecified:
                    continue
                except ModelError:
                    ok = False
                try:
                    x = ra
                    if bop == "add":
                        x += rhs_r
                    elif bop == "sub":
                        x -= rhs_r
                    elif bop == "mul":
                        x *= rhs_r
                    else:
                        x /= rhs_r
                    rok = True
                except EXC:
                    rok = False
                if ok != rok:
                    raise Violation("%s: in-place operation %s by the model, %s by cvxopt" % (
                        where, "allowed" if ok else "refused", "performed" if rok else "refused"))
                if ok:
                    if x is not ra:
                        raise Violation("%s: in-place operation returned a new object" % where)
                    ma.v = R.v
                    if sum(1 for (m_, r_) in names if m_ is ma) >= 2:
                        nalias_updates += 1
            else:
                try:
                    R = {"add": lambda: rd.addsub(ma, rhs_m, 1), "sub": lambda: rd.addsub(ma, rhs_m, -1), "mul": lambda: rd.mul(ma, rhs_m)}[bop]()
                    ok = True
                except rd.Unspecified:
                    continue
                except ModelError:
                    ok = False
                try:
                    x = {"add": lambda: ra + rhs_r, "sub": lambda: ra - rhs_r, "mul": lambda: ra * rhs_r}[bop]()
                    rok = True
                except EXC:
                    rok = False
                if ok != rok:
                    raise Violation("%s: binary operation %s by the model, %s by cvxopt" % (where, ok, rok))
                if ok:
                    if any(x is r_ for (_, r_) in names):
                        raise Violation("%s: regular operation returned an existing object" % where)
                    names.append([R, x])
        elif k == "set":
            v = num_val(s["num"])
            try:
                rd.setitem(ma, v, s["key"])
                ok = True
            except rd.Unspecified:
                continue
            except ModelError:
                ok = False
            try:
                ra[key_obj(s["key"])] = v
                rok = True
            except EXC:
                rok = False
            if ok != rok:
                raise Violation("%s: assignment %s by the model, %s by cvxopt" % (where, ok, rok))
            if ok and sum(1 for (m_, r_) in names if m_ is ma) >= 2:
                nalias_updates += 1
        check_all(where)
    if stats is not None:
        stats.evaluated(case, nalias_updates >= 2, ["history", "alias_updates:%d" % min(nalias_updates, 3)])


def search(ctx, stats):
    if ctx.part == "histories":
        v = run_given(history_strategy(), lambda c: history_oracle(c, stats), ctx.seed, ctx.n(30000, 600000), stats, journal=ctx.journal)
    else:
        v = run_given(case_strategy(), lambda c: oracle(c, stats), ctx.seed, ctx.n(200000, 5000000), stats, journal=ctx.journal)
    return [v] if v else []


def replay(case, part):
    try:
        (history_oracle if part == "histories" else oracle)(case)
    except Violation as v:
        return v.msg
    return None
