"""C09 — solver calls are isolated, configurable and repeatable (histories of option edits and solver calls)."""
import os, sys, json, pickle, struct, threading, copy
import numpy as np
from hypothesis import strategies as st
from vlib.harness import Violation, run_given
from vlib import ref_cone as rc, gen_cone as gc, judge, runlp, nlfam
from checks import c03, c04, c02

from cvxopt import matrix, spmatrix, sparse, solvers, misc
import cvxopt.coneprog, cvxopt.cvxprog

ENTRIES = ["conelp", "coneqp", "lp", "qp", "socp", "sdp", "cpl", "cp", "gp", "op"]
VALID_OPTS = {"maxiters": [1, 2, 3, 5, 100], "feastol": [1e-3, 1e-5, 1e-9], "abstol": [1e-3, 1e-9], "reltol": [1e-3, 1e-9],
              "refinement": [0, 1, 2], "show_progress": [False],
              # parameters for the GLPK back-end of lp() (used by the calls generated with solver='glpk')
              "glpk": [{"msg_lev": "GLP_MSG_OFF"}, {"msg_lev": "GLP_MSG_OFF", "it_lim": 1, "presolve": "GLP_OFF"}]}
INVALID_OPTS = [("maxiters", 0), ("maxiters", 1.5), ("maxiters", "3"), ("maxiters", -2), ("feastol", 0.0), ("feastol", -1e-7),
                ("feastol", "x"), ("refinement", -1), ("refinement", 0.5), ("abstol", "a"), ("reltol", None),
                ("kktreg", -1.0), ("abstol+reltol", -1.0), ("feastol", float("nan")), ("abstol+reltol", float("nan"))]


# ------------------------------------------------------------------ byte images

def image(o):
    if isinstance(o, matrix):
        return ("M", o.typecode, o.size, bytes(memoryview(o)) if o.size[0] * o.size[1] else b"")
    if isinstance(o, spmatrix):
        return ("S", o.typecode, o.size, tuple(o.CCS[0]), tuple(o.CCS[1]), bytes(memoryview(o.CCS[2])) if len(o.CCS[2]) else b"")
    if isinstance(o, dict):
        return ("D", tuple(sorted((repr(k), image(v)) for k, v in o.items())))
    if isinstance(o, (list, tuple)):
        return ("L", tuple(image(v) for v in o))
    if isinstance(o, float):
        return ("F", o.hex())
    if callable(o):
        return ("C",)
    return ("V", repr(o))


def other_globals():
    """module-level state of the back-ends that a solver call must leave alone (besides solvers.options)"""
    import cvxopt.glpk, cvxopt.dsdp
    return (id(cvxopt.glpk.options), image(dict(cvxopt.glpk.options)), id(cvxopt.dsdp.options), image(dict(cvxopt.dsdp.options)))


def ser(o):
    """Result -> JSON-able, bit exact."""
    if isinstance(o, matrix):
        return ["M", o.typecode, list(o.size), [float(v).hex() if o.typecode == "d" else repr(v) for v in o]]
    if isinstance(o, spmatrix):
        return ["S", list(o.size), list(o.I), list(o.J), [float(v).hex() for v in o.V]]
    if isinstance(o, dict):
        return {str(k): ser(v) for k, v in sorted(o.items(), key=lambda kv: str(kv[0]))}
    if isinstance(o, (list, tuple)):
        return [ser(v) for v in o]
    if isinstance(o, float):
        return ["F", o.hex()]
    if isinstance(o, (int, str, bool)) or o is None:
        return o
    if hasattr(o, "item"):
        return ser(o.item())
    return repr(o)


# ------------------------------------------------------------------ problems and calls

@st.composite
def problem(draw, entry):
    if entry in ("conelp", "lp", "socp", "sdp"):
        kinds = {"conelp": "lqs", "lp": "l", "socp": "lq", "sdp": "ls"}[entry]
        p = draw(gc.cone_case(kind=draw(st.sampled_from(["feas", "feas", "feas", "pinf", "dinf"])), kinds=kinds, max_n=3))
        return dict(fam="cone", prob=p, spG=draw(st.booleans()), kkt=draw(st.sampled_from([None, None, "ldl", "chol"])),
                    start=draw(st.sampled_from(["none", "none", "both"])),
                    glpk=(entry == "lp" and draw(st.integers(0, 2)) == 0))
    if entry in ("coneqp", "qp"):
        if draw(st.integers(0, 4)) == 0:
            # no inequality constraints: coneqp/qp solve one KKT system directly (G, h given as empty matrices)
            p = draw(gc.cone_case(kind="feas", dims={"l": 0, "q": [], "s": []}, qp=True, max_n=3))
            return dict(fam="qp", prob=p, sp=draw(st.booleans()), init=False)
        p = draw(gc.cone_case(kind="feas", kinds="lqs" if entry == "coneqp" else "l", qp=True, max_n=3))
        return dict(fam="qp", prob=p, sp=draw(st.booleans()), init=draw(st.booleans()))
    if entry in ("cpl", "cp", "gp"):
        c = draw(c04.case_strategy())
        c["entry"] = entry
        if entry == "gp" and "K" not in c or entry != "gp" and "K" in c or (entry == "cpl" and "c" not in c) or \
                (entry == "cp" and "f0" not in c):
            # re-draw consistent primitives for the requested entry point
            n = c["n"]
            c["dims"] = {"l": c["dims"]["l"], "q": [], "s": []} if entry == "gp" else c["dims"]
            for k in ("K", "F", "g", "c", "f0", "cons"):
                c.pop(k, None)
            mnl = len(c["margins"])
            if entry == "gp":
                N = rc.cdim(c["dims"])
                c["G"] = c["G"][:N]
                c["su"] = c["su"][:N]
                K = [draw(st.integers(1, 2)) for _ in range(1 + mnl)]
                c["K"] = K
                c["F"] = [[draw(nlfam.dy(-2, 2)) for _ in range(n)] for _ in range(sum(K))]
                c["g"] = [draw(nlfam.dy(-2, 2)) for _ in range(sum(K))]
            else:
                if entry == "cpl":
                    c["c"] = [draw(nlfam.dy()) for _ in range(n)]
                else:
                    c["f0"] = draw(nlfam.func_prims(n))
                c["cons"] = [draw(nlfam.func_prims(n)) for _ in range(mnl)]
        c["opts"] = {}
        return dict(fam="nl", case=c)
    p = draw(gc.cone_case(kind=draw(st.sampled_from(["feas", "feas", "pinf", "dinf"])), kinds="l", max_n=3))
    n, N, pp = p["n"], p["dims"]["l"], p["p"]
    return dict(fam="op", prob=p, cfg=dict(format=draw(st.sampled_from(["dense", "sparse"])), solver="default",
                                           n1=draw(st.integers(1, n)), isplit=draw(st.integers(0, N)),
                                           esplit=draw(st.integers(0, pp)), spcoef=draw(st.booleans())))


class Call:
    """One solver call built from primitives: holds the argument objects (for byte images) and runs the call."""
    def __init__(self, entry, pr):
        self.entry, self.pr = entry, pr
        self.F_calls = 0
        self.H_calls = 0
        fam = pr["fam"]
        self.ok = True
        if fam == "cone":
            mat = gc.materialize(pr["prob"])
            self.ok = bool(mat["rank_ok"])
            dims = mat["dims"]
            cfg = dict(entry=entry, kkt=pr["kkt"], solver=None, start=pr["start"], opts={}, spG=pr["spG"], spA=False,
                       start_data=dict(su=[0.5] * rc.cdim(dims), zu=[0.25] * rc.cdim(dims), xs=1, ys=1, delta=1.0))
            if entry == "lp" and (dims["q"] or dims["s"]):
                self.ok = False
            self.mat, self.cfg = mat, cfg
            self.args = self._cone_args(mat, cfg)
        elif fam == "qp":
            mat = c03.qp_data(pr["prob"])
            self.ok = bool(mat["qp_rank_ok"])
            dims = mat["dims"]
            self.mat = mat
            n, N = mat["n"], rc.cdim(dims)
            a = dict(P=gc.cvx(mat["P"], pr["sp"]), q=gc.cvx_dense(mat["q"]), G=gc.cvx(mat["G"], pr["sp"]),
                     h=gc.cvx_dense(mat["h"]), dims={"l": dims["l"], "q": list(dims["q"]), "s": list(dims["s"])},
                     A=gc.cvx_dense(mat["A"]), b=gc.cvx_dense(mat["b"]))
            a["initvals"] = ({"x": gc.cvx_dense(np.ones(n)), "s": gc.cvx_dense(gc.interior([0.5] * N, 1.0, dims)),
                              "z": gc.cvx_dense(gc.interior([0.25] * N, 1.0, dims))} if pr["init"] else None)
            self.args = a
        elif fam == "nl":
            self.P = c04.Problem(pr["case"])
            P = self.P
            self.args = dict(G=gc.cvx(P.G, pr["case"]["spG"]), h=gc.cvx_dense(P.h), dims={"l": P.dims["l"], "q": list(P.dims["q"]), "s": list(P.dims["s"])},
                             A=gc.cvx_dense(P.A), b=gc.cvx_dense(P.b))
            if entry == "cpl":
                self.args["c"] = gc.cvx_dense(P.c)
            if entry == "gp":
                self.args.update(K=list(P.K), F=gc.cvx_dense(P.gpF), g=gc.cvx_dense(P.gpg))
        else:
            mat = gc.materialize(pr["prob"])
            self.ok = bool(mat["rank_ok"]) and mat["dims"]["l"] > 0
            self.mat = mat
            if self.ok:
                self.op, self.xs, cols, self.cons, crows = c02.build_op(mat, pr["cfg"])
                self.args = dict(coefs=[c._f._linear._coeff[v] for c in self.cons for v in c._f._linear._coeff],
                                 consts=[c._f._constant for c in self.cons])
            else:
                self.args = {}

    def _cone_args(self, mat, cfg):
        dims = mat["dims"]
        ps, ds = runlp.start_points(cfg, mat)
        a = dict(c=gc.cvx_dense(mat["c"]), A=gc.cvx_dense(mat["A"]), b=gc.cvx_dense(mat["b"]))
        entry = cfg["entry"]
        if entry in ("conelp", "lp"):
            a.update(G=gc.cvx(mat["G"], cfg["spG"]), h=gc.cvx_dense(mat["h"]),
                     dims={"l": dims["l"], "q": list(dims["q"]), "s": list(dims["s"])})
            a["primalstart"] = None if ps is None else {"x": gc.cvx_dense(ps["x"]), "s": gc.cvx_dense(ps["s"])}
            a["dualstart"] = None if ds is None else {"y": gc.cvx_dense(ds["y"]), "z": gc.cvx_dense(ds["z"])}
            return a
        Gl, Gq, Gs_ = runlp.split_blocks(mat["G"], dims)
        hl, hq, hs = runlp.split_blocks(mat["h"], dims)
        n = mat["n"]
        a["Gl"] = gc.cvx(np.array(Gl).reshape((dims["l"], n)), cfg["spG"])
        a["hl"] = gc.cvx_dense(hl)
        if entry == "socp":
            a["Gq"] = [gc.cvx(g, cfg["spG"]) for g in Gq]
            a["hq"] = [gc.cvx_dense(x) for x in hq]
            if ps is not None:
                sl, sq, _ = runlp.split_blocks(ps["s"], dims)
                zl, zq, _ = runlp.split_blocks(ds["z"], dims)
                a["primalstart"] = {"x": gc.cvx_dense(ps["x"]), "sl": gc.cvx_dense(sl), "sq": [gc.cvx_dense(x) for x in sq]}
                a["dualstart"] = {"y": gc.cvx_dense(ds["y"]), "zl": gc.cvx_dense(zl), "zq": [gc.cvx_dense(x) for x in zq]}
        else:
            a["Gs"] = [gc.cvx(g, cfg["spG"]) for g in Gs_]
            a["hs"] = [gc.cvx_dense(np.array(x).reshape((m, m), order="F")) for x, m in zip(hs, dims["s"])]
            if ps is not None:
                sl, _, ss = runlp.split_blocks(ps["s"], dims)
                zl, _, zs = runlp.split_blocks(ds["z"], dims)
                mm = lambda xs_: [gc.cvx_dense(np.array(x).reshape((m, m), order="F")) for x, m in zip(xs_, dims["s"])]
                a["primalstart"] = {"x": gc.cvx_dense(ps["x"]), "sl": gc.cvx_dense(sl), "ss": mm(ss)}
                a["dualstart"] = {"y": gc.cvx_dense(ds["y"]), "zl": gc.cvx_dense(zl), "zs": mm(zs)}
        a.setdefault("primalstart", None)
        a.setdefault("dualstart", None)
        return a

    def run(self, options="__omit__"):
        """Executes the call; options='__omit__' means no options= keyword.  Returns ('ok', result) / ('exc', type, msg)."""
        kw = {} if options == "__omit__" else {"options": options}
        a = self.args
        e = self.entry
        try:
            if e == "conelp":
                r = solvers.conelp(a["c"], a["G"], a["h"], a["dims"], a["A"], a["b"], primalstart=a["primalstart"],
                                   dualstart=a["dualstart"], kktsolver=self.cfg["kkt"], **kw)
            elif e == "lp" and self.pr.get("glpk"):
                r = solvers.lp(a["c"], a["G"], a["h"], a["A"], a["b"], solver="glpk", **kw)
            elif e == "lp":
                r = solvers.lp(a["c"], a["G"], a["h"], a["A"], a["b"], kktsolver=self.cfg["kkt"],
                               primalstart=a["primalstart"], dualstart=a["dualstart"], **kw)
            elif e == "socp":
                r = solvers.socp(a["c"], a["Gl"], a["hl"], a["Gq"], a["hq"], a["A"], a["b"], kktsolver=self.cfg["kkt"],
                                 primalstart=a["primalstart"], dualstart=a["dualstart"], **kw)
            elif e == "sdp":
                r = solvers.sdp(a["c"], a["Gl"], a["hl"], a["Gs"], a["hs"], a["A"], a["b"], kktsolver=self.cfg["kkt"],
                                primalstart=a["primalstart"], dualstart=a["dualstart"], **kw)
            elif e == "coneqp":
                r = solvers.coneqp(a["P"], a["q"], a["G"], a["h"], a["dims"], a["A"], a["b"], initvals=a["initvals"], **kw)
            elif e == "qp":
                r = solvers.qp(a["P"], a["q"], a["G"], a["h"], a["A"], a["b"], initvals=a["initvals"], **kw)
            elif e in ("cpl", "cp"):
                F0 = self.P.callback()
                C = self

                def F(x=None, z=None):
                    if x is None:
                        # the start point is an object owned by the caller: hand out the same stored matrix every
                        # time and check afterwards that the solver did not write into it
                        if getattr(C, "start_obj", None) is None:
                            out0 = F0(None, None)
                            C.start_m, C.start_obj = out0[0], out0[1]
                            C.start_snap = [repr(v) for v in out0[1]]
                        return C.start_m, C.start_obj
                    C.F_calls += 1
                    if z is not None:
                        C.H_calls += 1
                    return F0(x, z)
                if e == "cpl":
                    r = solvers.cpl(a["c"], F, a["G"], a["h"], a["dims"], a["A"], a["b"], **kw)
                else:
                    r = solvers.cp(F, a["G"], a["h"], a["dims"], a["A"], a["b"], **kw)
            elif e == "gp":
                p = self.pr["case"]["p"]
                r = solvers.gp(a["K"], a["F"], a["g"], a["G"], a["h"], a["A"] if p else None, a["b"] if p else None, **kw)
            else:
                self.op.solve(self.pr["cfg"]["format"], **kw)
                r = dict(status=self.op.status, x=[v.value for v in self.xs], m=[c.multiplier.value for c in self.cons])
            return ("ok", ser(r))
        except Exception as ex:
            return ("exc", type(ex).__name__, str(ex)[:200])


# ------------------------------------------------------------------ pristine reference server

class RefServer:
    """A child forked before any solver call.  For each request it forks a grandchild that builds the call from
    primitives, runs it with empty global options and the given explicit options, and returns the serialised result."""
    def __init__(self):
        self.req_r, self.req_w = os.pipe()
        self.res_r, self.res_w = os.pipe()
        self.pid = os.fork()
        if self.pid == 0:
            try:
                os.close(self.req_w)
                os.close(self.res_r)
                self._serve()
            finally:
                os._exit(0)
        os.close(self.req_r)
        os.close(self.res_w)

    @staticmethod
    def _read(fd):
        hdr = b""
        while len(hdr) < 4:
            c = os.read(fd, 4 - len(hdr))
            if not c:
                return None
            hdr += c
        n = struct.unpack("<I", hdr)[0]
        buf = b""
        while len(buf) < n:
            c = os.read(fd, n - len(buf))
            if not c:
                return None
            buf += c
        return pickle.loads(buf)

    @staticmethod
    def _write(fd, obj):
        b = pickle.dumps(obj)
        os.write(fd, struct.pack("<I", len(b)) + b)

    def _serve(self):
        while True:
            req = self._read(self.req_r)
            if req is None:
                return
            r, w = os.pipe()
            pid = os.fork()
            if pid == 0:
                try:
                    os.close(r)
                    rid, entry, pr, opts = req
                    solvers.options.clear()
                    call = Call(entry, pr)
                    out = call.run(opts) + ({"F_calls": call.F_calls},)
                    self._write(w, out)
                except BaseException as e:      # noqa
                    self._write(w, ("harness", repr(e)))
                finally:
                    os._exit(0)
            os.close(w)
            out = self._read(r)
            os.close(r)
            os.waitpid(pid, 0)
            self._write(self.res_w, (req[0], out))

    def reference(self, entry, pr, opts):
        # requests carry a serial number: an answer left unread by an interrupted call (watchdog) is skipped, not
        # mistaken for the answer to the next request
        self.serial = getattr(self, "serial", 0) + 1
        self._write(self.req_w, (self.serial, entry, pr, opts))
        while True:
            ans = self._read(self.res_r)
            if ans is None:
                raise RuntimeError("reference server failed: no answer")
            rid, out = ans
            if rid == self.serial:
                break
        if out is None or out[0] == "harness":
            raise RuntimeError("reference server failed: %r" % (out,))
        return out

    def close(self):
        try:
            os.close(self.req_w)
            os.waitpid(self.pid, 0)
        except Exception:
            pass


SERVER = None


def server():
    global SERVER
    if SERVER is None:
        SERVER = RefServer()
    return SERVER


# ------------------------------------------------------------------ histories

opt_value = st.sampled_from([(k, v) for k, vs in VALID_OPTS.items() for v in vs])


@st.composite
def opts_dict(draw):
    items = draw(st.lists(opt_value, max_size=3))
    d = {"show_progress": False}
    for k, v in items:
        d[k] = v
    if draw(st.integers(0, 9)) == 0:
        d = {}
    return d


@st.composite
def call_step(draw):
    entry = draw(st.sampled_from(ENTRIES))
    pr = draw(problem(entry))
    per = draw(st.one_of(st.none(), opts_dict()))
    return dict(entry=entry, pr=pr, per=per)


@st.composite
def step(draw):
    k = draw(st.sampled_from(["set", "set", "del", "call", "call", "call", "call", "invalid", "threads", "tol"]))
    if k == "set":
        key, v = draw(opt_value)
        return dict(k="set", key=key, v=v)
    if k == "del":
        return dict(k="del", key=draw(st.sampled_from(sorted(VALID_OPTS))))
    if k == "call":
        return dict(k="call", **draw(call_step()))
    if k == "invalid":
        key, v = draw(st.sampled_from(INVALID_OPTS))
        return dict(k="invalid", key=key, v=v, where=draw(st.sampled_from(["global", "percall"])), **draw(call_step()))
    if k == "threads":
        return dict(k="threads", calls=[draw(call_step()) for _ in range(draw(st.integers(2, 4)))])
    return dict(k="tol", **draw(call_step()))


@st.composite
def history(draw):
    return dict(steps=draw(st.lists(step(), min_size=3, max_size=9)))


def effective(glob, per):
    return dict(per) if per is not None else dict(glob)


def quiet(d):
    d = dict(d)
    return d


def check_call(cs, glob_model, labels, where):
    """Runs one call in the current (dirty) process state and compares with the pristine reference."""
    call = Call(cs["entry"], cs["pr"])
    if not call.ok:
        labels.add("skipped:rank")
        return None
    per = None if cs["per"] is None else dict(cs["per"])
    before_args = image(call.args)
    before_glob = image(dict(solvers.options))
    before_per = image(per)
    before_other = other_globals()
    out = call.run("__omit__" if per is None else per)
    msgs = []
    if other_globals() != before_other:
        msgs.append("module-level options of a back-end were modified by the call: cvxopt.glpk.options is now %r" % (
            dict(sys.modules["cvxopt.glpk"].options),))
    if image(call.args) != before_args:
        msgs.append("an input argument (matrix, dims, start point) was modified by the call")
    if getattr(call, "start_obj", None) is not None and [repr(v) for v in call.start_obj] != call.start_snap:
        msgs.append("the start point returned by F() was overwritten by the solver: %r -> %r" % (call.start_snap, list(call.start_obj)))
    if image(dict(solvers.options)) != before_glob:
        msgs.append("the global solvers.options dictionary was modified: %r" % (dict(solvers.options),))
    if image(per) != before_per:
        msgs.append("the per-call options dictionary was modified: %r" % (per,))
    if cvxopt.coneprog.options is not solvers.options or cvxopt.cvxprog.options is not solvers.options:
        msgs.append("solvers.options is no longer the dictionary used by the solvers")
    eff = effective(glob_model, cs["per"])
    ref = server().reference(cs["entry"], cs["pr"], eff)
    if out[0] != ref[0] or (out[0] == "exc" and out[1] != ref[1]):
        msgs.append("outcome %r differs from the pristine run with explicit options %r: %r" % (out[:2], eff, ref[:2]))
    elif out[0] == "ok" and out[1] != ref[1]:
        diff = [k for k in out[1] if out[1].get(k) != ref[1].get(k)] if isinstance(out[1], dict) else ["result"]
        msgs.append("result differs from the pristine run with explicit options %r in fields %r (status %r vs %r)" % (
            eff, diff[:6], out[1].get("status") if isinstance(out[1], dict) else None,
            ref[1].get("status") if isinstance(ref[1], dict) else None))
    if out[0] == "ok" and isinstance(out[1], dict):
        it = out[1].get("iterations")
        mx = eff.get("maxiters", 100)
        if isinstance(it, int) and isinstance(mx, int) and it > mx:
            msgs.append("'iterations' = %d exceeds maxiters = %d" % (it, mx))
        if isinstance(it, int) and isinstance(mx, int) and it == mx and out[1].get("status") not in ("unknown",):
            msgs.append("iteration cap reached (iterations == maxiters == %d) but status is %r" % (mx, out[1].get("status")))
        # cpl evaluates F(x, z) (the Hessian) once per iteration, twice when it restores and retries
        if cs["entry"] in ("cpl", "cp") and isinstance(mx, int) and call.H_calls > 2 * mx + 2:
            msgs.append("F(x, z) was evaluated %d times (iterations) with maxiters = %d" % (call.H_calls, mx))
        # the given tolerances are the ones applied: every verdict must meet the effective feastol / abstol / reltol
        # in the solver's own reported accuracy fields (their correctness is the business of C01-C04)
        def fl(name):
            v = out[1].get(name)
            if isinstance(v, list) and len(v) == 2 and v[0] == "F":
                return float.fromhex(v[1])
            return None
        ft, at, rt = eff.get("feastol", 1e-7), eff.get("abstol", 1e-7), eff.get("reltol", 1e-6)
        stt = out[1].get("status")
        if all(isinstance(t, float) for t in (ft, at, rt)) and cs["entry"] not in ("op",):
            if stt == "primal infeasible":
                v = fl("residual as primal infeasibility certificate")
                if v is not None and v > ft * (1 + 1e-9):
                    msgs.append("status 'primal infeasible' with certificate residual %.3e > the given feastol %.1e" % (v, ft))
            elif stt == "dual infeasible":
                v = fl("residual as dual infeasibility certificate")
                if v is not None and v > ft * (1 + 1e-9):
                    msgs.append("status 'dual infeasible' with certificate residual %.3e > the given feastol %.1e" % (v, ft))
            elif stt == "optimal" and cs["entry"] in ("conelp", "lp", "socp", "sdp", "coneqp", "qp", "cpl", "cp", "gp"):
                pi, di, gp_, rg = fl("primal infeasibility"), fl("dual infeasibility"), fl("gap"), fl("relative gap")
                if pi is not None and di is not None and max(pi, di) > ft * (1 + 1e-9):
                    msgs.append("status 'optimal' with infeasibility %.3e > the given feastol %.1e" % (max(pi, di), ft))
                if gp_ is not None and not (gp_ <= at * (1 + 1e-9) or (rg is not None and rg <= rt * (1 + 1e-9))):
                    msgs.append("status 'optimal' with gap %.3e > abstol %.1e and relative gap %r > reltol %.1e" % (gp_, at, rg, rt))
        labels.add("status:" + str(out[1].get("status")))
    elif out[0] == "exc":
        labels.add("exc:" + out[1])
    if msgs:
        raise Violation("%s: %s(%s) global=%r per-call=%r: %s" % (where, cs["entry"], cs["pr"]["fam"], glob_model, cs["per"],
                                                               "; ".join(msgs[:3])))
    return out


class Counters:
    def __init__(self):
        self.n = 0
        self.saved = {}

    def __enter__(self):
        C = self
        for k in ("kkt_ldl", "kkt_ldl2", "kkt_chol", "kkt_chol2", "kkt_qr"):
            orig = getattr(misc, k)
            self.saved[k] = orig

            def wrap(*a, _orig=orig, **kw):
                fac = _orig(*a, **kw)

                def factor(*fa, **fk):
                    C.n += 1
                    return fac(*fa, **fk)
                return factor
            setattr(misc, k, wrap)
        return self

    def __exit__(self, *a):
        for k, v in self.saved.items():
            setattr(misc, k, v)


def oracle(case, stats=None):
    solvers.options.clear()
    glob = {}
    labels = set()
    ncalls = nglob = nper = 0
    try:
        for i, s in enumerate(case["steps"]):
            where = "step %d" % i
            k = s["k"]
            if k == "set":
                solvers.options[s["key"]] = s["v"]
                glob[s["key"]] = s["v"]
                nglob += 1
            elif k == "del":
                solvers.options.pop(s["key"], None)
                glob.pop(s["key"], None)
                nglob += 1
            elif k == "call":
                # show_progress is forced off through the global dict unless a per-call dict is given
                if s["per"] is None and not glob.get("show_progress") is False:
                    solvers.options["show_progress"] = False
                    glob["show_progress"] = False
                if check_call(s, glob, labels, where) is not None:
                    ncalls += 1
                    nper += s["per"] is not None
            elif k == "invalid":
                call = Call(s["entry"], s["pr"])
                if not call.ok or s["entry"] == "op" and False:
                    continue
                if s["pr"].get("glpk"):
                    continue            # the options of the native solver are not used (nor validated) on the GLPK path
                key, v = s["key"], s["v"]
                bad = {"show_progress": False}
                if key == "abstol+reltol":
                    bad.update(abstol=v, reltol=v)
                else:
                    bad[key] = v
                if key == "kktreg" and s["entry"] not in ("conelp", "coneqp", "lp", "qp", "socp", "sdp", "cp", "op"):
                    continue
                if key == "kktreg" and s["entry"] == "cp":
                    continue
                saved = dict(solvers.options)
                with Counters() as C:
                    if s["where"] == "global":
                        solvers.options.clear()
                        solvers.options.update(bad)
                        out = call.run("__omit__")
                        solvers.options.clear()
                        solvers.options.update(saved)
                    else:
                        out = call.run(dict(bad))
                labels.add("invalid:" + key)
                if not (out[0] == "exc" and out[1] == "ValueError"):
                    raise Violation("%s: %s with invalid option %s=%r (%s) -> %r; expected ValueError" % (
                        where, s["entry"], key, v, s["where"], out[:2] if out[0] == "exc" else out[1].get("status")))
                if C.n or call.F_calls:
                    raise Violation("%s: %s rejected invalid option %s=%r only after solving started (%d factorizations, %d F(x) calls)" % (
                        where, s["entry"], key, v, C.n, call.F_calls))
            elif k == "tol":
                call = Call(s["entry"], s["pr"])
                if not call.ok:
                    continue
                its = []
                for tol in (1e-3, 1e-9):
                    o = {"show_progress": False, "feastol": tol, "abstol": tol, "reltol": tol}
                    out = Call(s["entry"], s["pr"]).run(o)
                    its.append(out[1].get("iterations") if out[0] == "ok" and isinstance(out[1], dict) and out[1].get("status") == "optimal" else None)
                if its[0] is not None and its[1] is not None and its[0] > its[1]:
                    raise Violation("%s: %s needs %d iterations at tolerance 1e-3 but %d at 1e-9: tolerances not applied" % (
                        where, s["entry"], its[0], its[1]))
                labels.add("tol_monotone")
            elif k == "threads":
                calls = [Call(c["entry"], c["pr"]) for c in s["calls"]]
                if not all(c.ok for c in calls) or any(c["pr"].get("glpk") for c in s["calls"]):
                    continue            # (GLPK keeps a global environment: its calls are not run concurrently)
                outs = [None] * len(calls)
                pers = [dict(c["per"]) if c["per"] is not None else {"show_progress": False} for c in s["calls"]]
                barrier = threading.Barrier(len(calls))

                def work(i):
                    barrier.wait()
                    outs[i] = calls[i].run(pers[i])
                old = sys.getswitchinterval()
                sys.setswitchinterval(1e-6)
                try:
                    ths = [threading.Thread(target=work, args=(i,)) for i in range(len(calls))]
                    for t in ths:
                        t.start()
                    for t in ths:
                        t.join()
                finally:
                    sys.setswitchinterval(old)
                for i, (c, out) in enumerate(zip(s["calls"], outs)):
                    ref = server().reference(c["entry"], c["pr"], pers[i])
                    if out is None or out[:2] != ref[:2]:
                        raise Violation("%s: concurrent %s call (thread %d of %d) differs from its sequential pristine run: "
                                        "%r vs %r" % (where, c["entry"], i, len(calls),
                                                      (out[0], out[1].get("status") if out and out[0] == "ok" and isinstance(out[1], dict) else out and out[1]),
                                                      (ref[0], ref[1].get("status") if ref[0] == "ok" and isinstance(ref[1], dict) else ref[1])))
                labels.add("threads:%d" % len(calls))
    finally:
        solvers.options.clear()
    if stats is not None:
        stats.evaluated(case, ncalls >= 3 and nglob >= 1 and nper >= 1, sorted(labels))
        stats.extra["solver_calls_compared"] = stats.extra.get("solver_calls_compared", 0) + ncalls


# ------------------------------------------------------------------ part "refinement": the option is applied as documented

@st.composite
def refinement_case(draw):
    qp = draw(st.booleans())
    kinds = draw(st.sampled_from(["l", "lq", "ls", "lqs", "q", "s"]))
    prob = draw(gc.cone_case(kind="feas", kinds=kinds, qp=qp))
    return dict(qp=qp, prob=prob, how=draw(st.sampled_from(["per", "per", "global"])),
                wrapper=draw(st.booleans()), other=draw(st.sampled_from([None, 0, 2])))


def refinement_oracle(case, stats=None):
    """'refinement: number of iterative refinement steps when solving KKT equations (default: 0 if the problem has no
    second-order cone or matrix inequality constraints; 1 otherwise)'.  Each refinement step is one more call of the
    solve routine that the (user) KKT solver returned, so the number of solve calls that follow the first factorization
    of the main loop (where the iterates do not yet depend on the option) must grow linearly with the option, an
    explicit 0 must be honoured, and leaving the option out must behave like the documented default."""
    qp, prob = case["qp"], case["prob"]
    mat = c03.qp_data(prob) if qp else gc.materialize(prob)
    dims = mat["dims"]
    labels = ["refinement:" + ("qp" if qp else "lp")]
    if not (mat["qp_rank_ok"] if qp else mat["rank_ok"]):
        if stats is not None:
            stats.evaluated(case, False, labels + ["skipped:rank"])
        return
    G, h = gc.cvx_dense(mat["G"]), gc.cvx_dense(mat["h"])
    A, b = gc.cvx_dense(mat["A"]), gc.cvx_dense(mat["b"])
    pure_l = not dims["q"] and not dims["s"]
    entry = "coneqp" if qp else "conelp"
    if case["wrapper"] and pure_l:
        entry = "qp" if qp else "lp"

    def run(r):
        prof = []
        if qp:
            Pm = gc.cvx_dense(mat["P"])
            fac = misc.kkt_ldl(G, dims, A, 0)
        else:
            fac = misc.kkt_ldl(G, dims, A)

        def kkt(W):
            f = fac(W, Pm) if qp else fac(W)
            prof.append(0)

            def solve(x, y, z):
                prof[-1] += 1
                return f(x, y, z)
            return solve
        opts = {"show_progress": False, "maxiters": 3}
        solvers.options.clear()
        if case["how"] == "global":
            if r is not None:
                solvers.options["refinement"] = r
            solvers.options.update(show_progress=False, maxiters=3)
            kw = {}
        else:
            if case["other"] is not None:
                solvers.options["refinement"] = case["other"]       # must lose against the per-call dictionary
            if r is not None:
                opts["refinement"] = r
            elif case["other"] is not None:
                del solvers.options["refinement"]
            kw = {"options": opts}
        try:
            if entry == "conelp":
                solvers.conelp(gc.cvx_dense(mat["c"]), G, h, dims, A, b, kktsolver=kkt, **kw)
            elif entry == "lp":
                solvers.lp(gc.cvx_dense(mat["c"]), G, h, A, b, kktsolver=kkt, **kw)
            elif entry == "coneqp":
                solvers.coneqp(Pm, gc.cvx_dense(mat["q"]), G, h, dims, A, b, kktsolver=kkt, **kw)
            else:
                solvers.qp(Pm, gc.cvx_dense(mat["q"]), G, h, A, b, kktsolver=kkt, **kw)
        finally:
            solvers.options.clear()
        return prof
    try:
        profs = {r: run(r) for r in (0, 1, 2, None)}
    except (ValueError, ArithmeticError, ZeroDivisionError):
        if stats is not None:
            stats.evaluated(case, False, labels + ["skipped:raised"])       # judged by C05/C10
        return
    if min(len(p_) for p_ in profs.values()) < 2:
        if stats is not None:
            stats.evaluated(case, False, labels + ["skipped:no_main_loop_factorization"])
        return
    c0, c1, c2, cd = (profs[r][1] for r in (0, 1, 2, None))
    default = 0 if pure_l else 1
    where = "%s (dims %r, options given %s)" % (entry, dims, "per call" if case["how"] == "per" else "in solvers.options")
    if not (c0 < c1 < c2 and c1 - c0 == c2 - c1):
        raise Violation("%s: KKT solves after the first factorization of the main loop with refinement = 0, 1, 2: %d, %d, %d "
                        "(each refinement step is one more solve per KKT system: the counts must grow linearly)" % (where, c0, c1, c2))
    if cd != (c0, c1)[default]:
        raise Violation("%s: without a 'refinement' option %d solves follow the first factorization, the documented default %d "
                        "gives %d (0, 1, 2 give %d, %d, %d)" % (where, cd, default, (c0, c1)[default], c0, c1, c2))
    if stats is not None:
        stats.evaluated(case, not pure_l, labels + ["entry:" + entry, "how:" + case["how"]])


def search(ctx, stats):
    if ctx.part == "refinement":
        v = run_given(refinement_case(), lambda c: refinement_oracle(c, stats), ctx.seed, ctx.n(1500, 40000), stats)
        return [v] if v else []
    server()
    v = run_given(history(), lambda c: oracle(c, stats), ctx.seed, ctx.n(800, 30000), stats, on_timeout="violation")
    SERVER.close()
    return [v] if v else []


def replay(case, part):
    if part == "refinement":
        try:
            refinement_oracle(case)
        except Violation as v:
            return v.msg
        return None
    server()
    try:
        oracle(case)
    except Violation as v:
        return v.msg
    return None
