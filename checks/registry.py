"""Static description of every check (pure data; importable without cvxopt).

parts: list of (part name, build variant, share of workers).  The worker
module `checks.<module>` must define `search(ctx, stats)` (returns a list of
violation dicts) and `replay(case, part)` (returns None or a message).
"""

REGISTRY = {}


def reg(pid, module, parts, level, rule, assumptions, technique="", level_text="", level_note="",
        design_ref=""):
    REGISTRY[pid] = dict(module=module, parts=parts, level=level, rule=rule,
                         assumptions=assumptions, technique=technique, level_text=level_text,
                         level_note=level_note, design_ref=design_ref)
