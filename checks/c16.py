"""C16 — sparse matrices are a faithful, structurally valid image of the dense semantics.

Differential: every operation is applied to spmatrix operands and to their dense copies; the dense image of the
sparse result must equal the dense result, the sparse/dense result type must be the documented one, and after
every step the compressed-column structure must be valid."""
import numpy as np
from hypothesis import strategies as st
from vlib.harness import Violation, run_given

import cvxopt
from cvxopt import matrix, spmatrix, sparse, spdiag, base

EXC = (IndexError, TypeError, ValueError, ZeroDivisionError, ArithmeticError, OverflowError, NotImplementedError, MemoryError)


def val_st(tc):
    if tc == "d":
        return st.integers(-6, 6).map(lambda k: k / 2.0)
    return st.tuples(st.integers(-4, 4), st.integers(-4, 4)).map(lambda p: [p[0] / 2.0, p[1] / 2.0])


def dec(tc, v):
    return complex(v[0], v[1]) if tc == "z" else v


@st.composite
def sp_st(draw, tc=None, m=None, n=None, maxdim=4):
    tc = tc or draw(st.sampled_from("ddz"))
    m = draw(st.integers(0, maxdim)) if m is None else m
    n = draw(st.integers(0, maxdim)) if n is None else n
    k = draw(st.integers(0, min(8, 2 * m * n))) if m * n else 0
    I = [draw(st.integers(0, m - 1)) for _ in range(k)]
    J = [draw(st.integers(0, n - 1)) for _ in range(k)]
    V = [draw(st.one_of(val_st(tc), val_st(tc), st.just([0.0, 0.0] if tc == "z" else 0.0))) for _ in range(k)]
    return dict(tc=tc, m=m, n=n, I=I, J=J, V=V)


def mk_sp(s):
    return spmatrix([dec(s["tc"], v) for v in s["V"]], s["I"], s["J"], (s["m"], s["n"]), s["tc"])


@st.composite
def dn_st(draw, tc=None, m=None, n=None, maxdim=4):
    tc = tc or draw(st.sampled_from("dz"))
    m = draw(st.integers(0, maxdim)) if m is None else m
    n = draw(st.integers(0, maxdim)) if n is None else n
    return dict(tc=tc, m=m, n=n, v=[draw(val_st("d" if tc == "i" else tc)) for _ in range(m * n)])


def mk_dn(s):
    if s["tc"] == "i":
        return matrix([int(2 * v) for v in s["v"]], (s["m"], s["n"]), "i")
    return matrix([dec(s["tc"], v) for v in s["v"]], (s["m"], s["n"]), s["tc"])


@st.composite
def key_st(draw, n):
    kind = draw(st.sampled_from(["int", "slice", "slice", "list", "list", "imat"]))
    if kind == "int":
        return ["int", draw(st.integers(-n - 1, n))]
    if kind == "slice":
        def e():
            return draw(st.one_of(st.none(), st.integers(-n - 1, n + 1)))
        return ["slice", e(), e(), draw(st.sampled_from([None, 1, 2, -1, -2]))]
    k = draw(st.integers(0, 4))
    inr = st.integers(-n, n - 1) if n else st.integers(0, 0)
    vals = [draw(st.one_of(inr, inr, inr, inr, st.integers(-n - 1, n))) for _ in range(k)]
    if kind == "imat" and draw(st.booleans()):
        shapes = [(1, k)] + [(r, k // r) for r in (2, 3) if k % r == 0]
        return [kind, vals, list(draw(st.sampled_from(shapes)))]
    return [kind, vals]


def key_obj(key):
    k = key[0]
    if k == "int":
        return key[1]
    if k == "slice":
        return slice(key[1], key[2], key[3])
    if k == "list":
        return list(key[1])
    # "the size of the index matrix is ignored" (matrices.rst): rows, columns and rectangles of indices
    return matrix(list(key[1]), tuple(key[2]) if len(key) > 2 else (len(key[1]), 1), "i")


def key_has_dups(key, n):
    if key[0] in ("list", "imat"):
        xs = [i % n for i in key[1] if n and -n <= i < n]
        return len(set(xs)) != len(xs)
    return False


# ------------------------------------------------------------------ structural validity

def check_ccs(A, where):
    if not isinstance(A, spmatrix):
        return
    colptr, rowind, vals = A.CCS
    cp, ri = list(colptr), list(rowind)
    m, n = A.size
    if len(cp) != n + 1 or (cp and cp[0] != 0):
        raise Violation("%s: column pointer array %r invalid for %d columns" % (where, cp, n))
    if any(b < a for a, b in zip(cp, cp[1:])):
        raise Violation("%s: column pointers decrease: %r" % (where, cp))
    if cp[-1] != len(ri) or len(ri) != len(vals):
        raise Violation("%s: colptr[-1]=%d, len(rowind)=%d, len(values)=%d" % (where, cp[-1], len(ri), len(vals)))
    for j in range(n):
        col = ri[cp[j]:cp[j + 1]]
        if any(not 0 <= r < m for r in col):
            raise Violation("%s: row index out of range in column %d: %r" % (where, j, col))
        if any(b <= a for a, b in zip(col, col[1:])):
            raise Violation("%s: row indices not strictly increasing in column %d: %r" % (where, j, col))
    if list(A.I) != ri or len(A.J) != len(ri) or len(A.V) != len(ri):
        raise Violation("%s: I/J/V inconsistent with CCS" % where)
    jj = [j for j in range(n) for _ in range(cp[j + 1] - cp[j])]
    if list(A.J) != jj:
        raise Violation("%s: J attribute %r inconsistent with the column pointers" % (where, list(A.J)))


def dense(x):
    return matrix(x) if isinstance(x, spmatrix) else x


def same(a, b, approx=False):
    """Exact (or approximate) equality of two results that are matrices or numbers."""
    if isinstance(a, (matrix, spmatrix)) != isinstance(b, (matrix, spmatrix)):
        return "result kinds differ: %s vs %s" % (type(a).__name__, type(b).__name__)
    if isinstance(a, (matrix, spmatrix)):
        a, b = dense(a), dense(b)
        if a.size != b.size:
            return "sizes %r vs %r" % (a.size, b.size)
        if a.typecode != b.typecode:
            # the dense image of a sparse result can only be 'd' or 'z'
            if not (a.typecode in "dz" and b.typecode == "i" and False):
                return "typecodes %r vs %r" % (a.typecode, b.typecode)
        for k, (x, y) in enumerate(zip(a, b)):
            if (abs(x - y) > 1e-12 * (1 + abs(y))) if approx else (x != y):
                return "element %d: %r vs %r (sparse image %r, dense %r)" % (k, x, y, list(a)[:12], list(b)[:12])
        return None
    if (abs(a - b) > 1e-12 * (1 + abs(b))) if approx else (a != b):
        return "%r vs %r" % (a, b)
    return None


def both(f_sparse, f_dense, what, approx=False, expect_type=None, same_class=True):
    """Runs the sparse and the dense version; compares outcome class, values and result type."""
    try:
        rs, es = f_sparse(), None
    except EXC as e:
        rs, es = None, e
    try:
        rdn, ed = f_dense(), None
    except EXC as e:
        rdn, ed = None, e
    if (es is None) != (ed is None):
        raise Violation("%s: sparse %s, dense %s" % (what, ("raised %s: %s" % (type(es).__name__, es)) if es else "succeeded",
                                                    ("raised %s: %s" % (type(ed).__name__, ed)) if ed else "succeeded"))
    if es is not None:
        if isinstance(es, MemoryError) and not isinstance(ed, MemoryError):
            # operands have at most a few dozen entries: running out of memory is never the dense outcome
            raise Violation("%s: sparse raised MemoryError, dense raised %s: %s" % (what, type(ed).__name__, ed))
        if same_class and (type(es) is IndexError) != (type(ed) is IndexError):
            raise Violation("%s: sparse raised %s, dense raised %s" % (what, type(es).__name__, type(ed).__name__))
        return "refused", None
    msg = same(rs, rdn, approx)
    if msg:
        raise Violation("%s: %s" % (what, msg))
    if expect_type == "sparse" and not isinstance(rs, spmatrix):
        raise Violation("%s: documented result type is sparse, got %s" % (what, type(rs).__name__))
    if expect_type == "dense" and not isinstance(rs, matrix):
        raise Violation("%s: documented result type is dense, got %s" % (what, type(rs).__name__))
    check_ccs(rs, what + " (result)")
    return "ok", rs


# ------------------------------------------------------------------ single operations

@st.composite
def case_strategy(draw):
    op = draw(st.sampled_from(["ctor", "ctor", "sparsefn", "blockgrid", "spdiag", "get1", "get2", "get2", "set1", "set2", "set2", "bin", "bin",
                               "scal", "unary", "inplace", "setV", "resize", "blas", "blas", "blas", "blas", "foreign"]))
    c = dict(op=op)
    if op == "ctor":
        tc = draw(st.sampled_from("ddz"))
        m, n = draw(st.integers(0, 4)), draw(st.integers(0, 4))
        k = draw(st.integers(0, 7))
        c.update(tc=tc, m=m, n=n, I=[draw(st.integers(-1, m)) if draw(st.integers(0, 15)) == 0 else draw(st.integers(0, max(m - 1, 0))) for _ in range(k)],
                 J=[draw(st.integers(0, max(n - 1, 0))) for _ in range(k)],
                 V=[draw(val_st(tc)) for _ in range(k)], scalarV=draw(st.integers(0, 4)) == 0,
                 give_size=draw(st.booleans()), ikind=draw(st.sampled_from(["list", "imat", "tuple"])))
    elif op == "sparsefn":
        c.update(src=draw(st.one_of(dn_st(), sp_st())), blocks=draw(st.booleans()),
                 other=draw(st.one_of(dn_st(), sp_st())), tc=draw(st.sampled_from([None, None, "d", "z"])))
    elif op == "blockgrid":
        hs = draw(st.lists(st.integers(0, 3), min_size=1, max_size=3))
        ws = draw(st.lists(st.integers(0, 3), min_size=1, max_size=3))
        tcs = draw(st.sampled_from(["d", "z", "dz"]))
        cols = []
        for w in ws:
            col = []
            for h in hs:
                if draw(st.integers(0, 24)) == 0:
                    h = draw(st.integers(0, 3))          # occasionally a block of the wrong height
                t = draw(st.sampled_from(tcs))
                col.append(draw(st.one_of(sp_st(tc=t, m=h, n=w), sp_st(tc=t, m=h, n=w), dn_st(tc=t, m=h, n=w))))
            cols.append(col)
        c.update(cols=cols, flat=(len(ws) == 1 and draw(st.booleans())))
    elif op == "spdiag":
        c.update(items=[draw(st.one_of(dn_st(tc=draw(st.sampled_from("idz")), m=k_, n=k_), sp_st(m=k_, n=k_))) for k_ in draw(st.lists(st.integers(0, 3), min_size=1, max_size=3))],
                 vec=draw(dn_st(n=1)), usevec=draw(st.booleans()))
        if c["usevec"] and draw(st.booleans()):
            # "x is a dense or sparse matrix with a single row or column": sparse vectors, rows as well as columns
            k_ = draw(st.integers(1, 4))
            c["vec"] = draw(sp_st(m=1, n=k_)) if draw(st.booleans()) else draw(st.one_of(sp_st(m=k_, n=1), dn_st(m=1, n=k_)))
    elif op in ("get1", "set1"):
        A = draw(sp_st())
        c.update(A=A, key=draw(key_st(A["m"] * A["n"])))
    elif op in ("get2", "set2"):
        A = draw(sp_st())
        c.update(A=A, key=draw(key_st(A["m"])), key2=draw(key_st(A["n"])))
    if op in ("set1", "set2"):
        A = c["A"]

        def cnt(key, n):
            k = key[0]
            if k == "int":
                return 1
            if k == "slice":
                return len(range(n)[slice(key[1], key[2], key[3])])
            return len(key[1])
        shape = (cnt(c["key"], A["m"] * A["n"]), 1) if op == "set1" else (cnt(c["key"], A["m"]), cnt(c["key2"], A["n"]))
        kind = draw(st.sampled_from(["num", "dense", "dense", "sparse", "sparse", "wrong"]))
        if kind == "num":
            c["rhs"] = dict(num=draw(val_st(draw(st.sampled_from("ddz")))), tc="z" if False else None)
            c["rhs"]["tc"] = "z" if isinstance(c["rhs"]["num"], list) else "d"
        elif kind == "dense":
            c["rhs"] = dict(dn=draw(dn_st(m=shape[0], n=shape[1])))
        elif kind == "sparse":
            c["rhs"] = dict(sp=draw(sp_st(m=shape[0], n=shape[1])))
        else:
            c["rhs"] = dict(sp=draw(sp_st())) if draw(st.booleans()) else dict(dn=draw(dn_st()))
    if op in ("bin", "inplace"):
        A = draw(sp_st())
        bop = draw(st.sampled_from(["add", "sub", "mul"]))
        kind = draw(st.sampled_from(["sp_same", "sp_same", "dn_same", "sp_conf", "dn_conf", "any", "one"]))
        if kind == "sp_same":
            B = dict(sp=draw(sp_st(m=A["m"], n=A["n"])))
        elif kind == "dn_same":
            B = dict(dn=draw(dn_st(m=A["m"], n=A["n"])))
        elif kind == "sp_conf":
            B = dict(sp=draw(sp_st(m=A["n"])))
        elif kind == "dn_conf":
            B = dict(dn=draw(dn_st(m=A["n"])))
        elif kind == "one":
            B = dict(dn=draw(dn_st(m=1, n=1)))
        else:
            B = dict(sp=draw(sp_st())) if draw(st.booleans()) else dict(dn=draw(dn_st()))
        c.update(A=A, B=B, bop=bop, swap=draw(st.booleans()))
    if op == "foreign":
        c.update(A=draw(st.one_of(sp_st(), dn_st(), dn_st(tc="i"))),
                 bop=draw(st.sampled_from(["add", "sub", "mul", "truediv", "mod", "pow", "iadd", "isub", "imul", "itruediv", "imod"])),
                 obj=draw(st.sampled_from(["none", "str", "object", "list", "tuple", "dict", "inst", "refl", "bigint", "hugeint", "bytes"])),
                 swap=draw(st.booleans()))
    if op == "scal":
        tcn = draw(st.sampled_from("ddz"))
        c.update(A=draw(sp_st()), f=draw(st.sampled_from(["mul", "rmul", "div", "add", "radd", "sub", "rsub", "imul", "idiv"])),
                 num=draw(val_st(tcn)), ntc=tcn, as_int=draw(st.booleans()))
    if op == "unary":
        c.update(A=draw(sp_st()), f=draw(st.sampled_from(["neg", "pos", "abs", "T", "H", "trans", "ctrans", "real", "imag", "len", "bool", "matrix", "copy"])))
    if op == "setV":
        A = draw(sp_st())
        c.update(A=A, newV=[draw(val_st(A["tc"])) for _ in range(9)], wrong=draw(st.integers(0, 6)) == 0)
    if op == "resize":
        A = draw(sp_st())
        L = A["m"] * A["n"]
        c.update(A=A, size=draw(st.sampled_from([(L, 1), (1, L), (A["n"], A["m"]), (2, 2), (2, 3), (0, 0)])))
    if op == "blas":
        f = draw(st.sampled_from(["axpy", "gemv", "gemv", "gemm", "gemm", "syrk", "symv"]))
        tc = draw(st.sampled_from("dd" + ("z" if f in ("axpy", "gemv", "gemm") else "")))
        c.update(f=f, tc=tc, m=draw(st.integers(0, 3)), n=draw(st.integers(0, 3)), k=draw(st.integers(0, 3)),
                 spA=draw(st.booleans()), spB=draw(st.booleans()), spC=draw(st.booleans()),
                 transA=draw(st.sampled_from("NNTC")), transB=draw(st.sampled_from("NNTC")),
                 alpha=draw(st.sampled_from([1.0, 1.0, -1.0, 0.5, 0.0, 2.0])), beta=draw(st.sampled_from([0.0, 1.0, 1.0, -1.0, 0.5])),
                 partial=draw(st.booleans()), seed=draw(st.integers(0, 10 ** 6)), uplo=draw(st.sampled_from("LU")))
        if f in ("gemv", "symv") and draw(st.integers(0, 2)) > 0:
            c.update(incx=draw(st.sampled_from([1, 2, -1, -2, -1])), incy=draw(st.sampled_from([1, 2, -1, -2, -1])))
        if f in ("gemv", "symv") and draw(st.integers(0, 2)) > 0:
            # the operation on a submatrix: rows oi.., columns oj.. of a larger A (m, n, offsetA as in BLAS, ldA = A.size[0])
            c.update(sub=[draw(st.integers(0, 3)), draw(st.integers(0, 3)), draw(st.integers(0, 1)), draw(st.integers(0, 1))])
        if f == "gemv" and draw(st.booleans()):
            # x and y as parts of longer vectors (offsetx, offsety, elements after the addressed part)
            c.update(off=[draw(st.integers(0, 2)), draw(st.integers(0, 2)), draw(st.integers(0, 2)), draw(st.integers(0, 2))])
    return c


def rnd_sp(rng, tc, m, n, density=0.6, explicit_zero=True):
    I, J, V = [], [], []
    for j in range(n):
        for i in range(m):
            if rng.rand() < density:
                I.append(i)
                J.append(j)
                v = rng.randint(-4, 5) / 2.0
                if explicit_zero and rng.rand() < 0.15:
                    v = 0.0
                V.append(complex(v, rng.randint(-2, 3) / 2.0) if tc == "z" else v)
    return spmatrix(V, I, J, (m, n), tc)


def rnd_dn(rng, tc, m, n):
    vals = [(complex(rng.randint(-4, 5) / 2.0, rng.randint(-2, 3) / 2.0) if tc == "z" else rng.randint(-4, 5) / 2.0) for _ in range(m * n)]
    return matrix(vals, (m, n), tc)


def blas_case(c, labels):
    """base.axpy / gemv / gemm / syrk / symv on every sparse/dense operand combination vs the all-dense call."""
    rng = np.random.RandomState(c["seed"])
    f, tc = c["f"], c["tc"]
    m, n, k = c["m"], c["n"], c["k"]
    al, be = c["alpha"], c["beta"]
    mkA = (lambda r, cc: rnd_sp(rng, tc, r, cc)) if c["spA"] else (lambda r, cc: rnd_dn(rng, tc, r, cc))
    mkB = (lambda r, cc: rnd_sp(rng, tc, r, cc)) if c["spB"] else (lambda r, cc: rnd_dn(rng, tc, r, cc))
    mkC = (lambda r, cc: rnd_sp(rng, tc, r, cc)) if c["spC"] else (lambda r, cc: rnd_dn(rng, tc, r, cc))
    what = "base.%s(%s) sparse A/B/C=%r/%r/%r" % (f, {kk: c[kk] for kk in ("tc", "m", "n", "k", "transA", "transB", "alpha", "beta", "partial", "uplo")},
                                                   c["spA"], c["spB"], c["spC"])
    if f == "axpy":
        X, Y = mkA(m, n), mkC(m, n)
        Xd, Yd = matrix(X), matrix(Y)
        pat = set(zip(Y.I, Y.J)) if isinstance(Y, spmatrix) else None
        kw = {"partial": True} if (c["partial"] and isinstance(X, spmatrix) and isinstance(Y, spmatrix)) else {}
        try:
            base.axpy(X, Y, alpha=al, **kw)
        except EXC as e:
            raise Violation("%s raised %s: %s" % (what, type(e).__name__, e))
        base.axpy(Xd, Yd, alpha=al)
        res, resd = Y, Yd
        partial = bool(kw)
    elif f == "gemv":
        oi, oj, er, ec = c.get("sub", [0, 0, 0, 0])
        A = mkA(m + oi + er, n + oj + ec)
        skw = dict(m=m, n=n, offsetA=oi + oj * A.size[0]) if "sub" in c else {}
        if skw:
            what += " submatrix %r of a %dx%d A" % (skw, A.size[0], A.size[1])
        tA = c["transA"]
        xl, yl = (n, m) if tA == "N" else (m, n)
        ix, iy = c.get("incx", 1), c.get("incy", 1)
        what += " incx=%d incy=%d" % (ix, iy)
        ox, oy, tx, ty = c.get("off", [0, 0, 0, 0])
        x, y = rnd_dn(rng, tc, ox + tx + (1 + (xl - 1) * abs(ix) if xl else 0), 1), rnd_dn(rng, tc, oy + ty + (1 + (yl - 1) * abs(iy) if yl else 0), 1)
        if "off" in c:
            skw = dict(skw, offsetx=ox, offsety=oy)
            what += " offsetx=%d offsety=%d (+%d, +%d elements behind)" % (ox, oy, tx, ty)
        yd = matrix(y)
        try:
            base.gemv(A, x, y, trans=tA, alpha=al, beta=be, incx=ix, incy=iy, **skw)
        except EXC as e:
            raise Violation("%s raised %s: %s" % (what, type(e).__name__, e))
        if "sub" in c and A.size[0] == 0:
            yd = y          # a matrix without rows has no leading dimension to address a submatrix with: not judged
        elif skw:
            Asub = matrix(matrix(A)[oi:oi + m, oj:oj + n], (m, n))
            base.gemv(Asub, x, yd, trans=tA, alpha=al, beta=be, incx=ix, incy=iy, offsetx=ox, offsety=oy)
        else:
            base.gemv(matrix(A), x, yd, trans=tA, alpha=al, beta=be, incx=ix, incy=iy)
        res, resd, partial, pat = y, yd, False, None
    elif f == "gemm":
        tA, tB = c["transA"], c["transB"]
        A = mkA(*((m, k) if tA == "N" else (k, m)))
        B = mkB(*((k, n) if tB == "N" else (n, k)))
        C = mkC(m, n)
        Cd = matrix(C)
        pat = set(zip(C.I, C.J)) if isinstance(C, spmatrix) else None
        partial = c["partial"] and isinstance(C, spmatrix)
        kw = {"partial": True} if partial else {}
        try:
            base.gemm(A, B, C, transA=tA, transB=tB, alpha=al, beta=be, **kw)
        except EXC as e:
            raise Violation("%s raised %s: %s" % (what, type(e).__name__, e))
        base.gemm(matrix(A), matrix(B), Cd, transA=tA, transB=tB, alpha=al, beta=be)
        res, resd = C, Cd
    elif f == "syrk":
        tA = "N" if c["transA"] == "N" else "T"
        A = mkA(*((n, k) if tA == "N" else (k, n)))
        C = mkC(n, n)
        Cd = matrix(C)
        pat = set(zip(C.I, C.J)) if isinstance(C, spmatrix) else None
        partial = c["partial"] and isinstance(C, spmatrix)
        kw = {"partial": True} if partial else {}
        try:
            base.syrk(A, C, uplo=c["uplo"], trans=tA, alpha=al, beta=be, **kw)
        except EXC as e:
            raise Violation("%s raised %s: %s" % (what, type(e).__name__, e))
        base.syrk(matrix(A), Cd, uplo=c["uplo"], trans=tA, alpha=al, beta=be)
        res, resd = C, Cd
        # only the uplo triangle is specified
        tri = [(i, j) for j in range(n) for i in range(n) if (i >= j if c["uplo"] == "L" else i <= j)]
        check_ccs(res, what)
        R = matrix(res)
        for (i, j) in tri:
            if partial and (i, j) not in pat:
                if R[i, j] != 0 and (i, j) not in pat:
                    raise Violation("%s: partial=True created/updated entry (%d,%d) outside the pattern of C" % (what, i, j))
                continue
            if abs(R[i, j] - resd[i, j]) > 1e-12 * (1 + abs(resd[i, j])):
                raise Violation("%s: entry (%d,%d) = %r, dense computation gives %r" % (what, i, j, R[i, j], resd[i, j]))
        labels.append("blas:syrk")
        return
    else:  # symv
        oi, oj, er, ec = c.get("sub", [0, 0, 0, 0])
        A = mkA(n + oi + er, n + oj + ec)
        skw = dict(n=n, offsetA=oi + oj * A.size[0]) if "sub" in c else {}
        if skw:
            what += " submatrix %r of a %dx%d A" % (skw, A.size[0], A.size[1])
        ix, iy = c.get("incx", 1), c.get("incy", 1)
        what += " incx=%d incy=%d" % (ix, iy)
        xs, ys = rnd_dn(rng, "d", n, 1), rnd_dn(rng, "d", n, 1)
        # strided copies (BLAS convention: a negative increment runs backwards through the buffer)
        xb, yb = matrix(7.0, (1 + (n - 1) * abs(ix) if n else 0, 1)), matrix(9.0, (1 + (n - 1) * abs(iy) if n else 0, 1))
        for i in range(n):
            xb[(i if ix > 0 else n - 1 - i) * abs(ix)] = xs[i]
            yb[(i if iy > 0 else n - 1 - i) * abs(iy)] = ys[i]
        yb0 = matrix(yb)
        try:
            base.symv(A, xb, yb, uplo=c["uplo"], alpha=al, beta=be, incx=ix, incy=iy, **skw)
        except EXC as e:
            raise Violation("%s raised %s: %s" % (what, type(e).__name__, e))
        x, y, yd = xs, matrix([yb[(i if iy > 0 else n - 1 - i) * abs(iy)] for i in range(n)], (n, 1), "d"), ys
        for k_ in range(len(yb)):
            if k_ % abs(iy) != 0 and yb[k_] != yb0[k_]:
                raise Violation("%s: element %d of y between the addressed elements changed" % (what, k_))
        # reference: symmetric matrix defined by the uplo triangle of A
        Ad = matrix(matrix(A)[oi:oi + n, oj:oj + n], (n, n))
        S = matrix(0.0, (n, n))
        for j in range(n):
            for i in range(n):
                S[i, j] = Ad[i, j] if (i >= j if c["uplo"] == "L" else i <= j) else Ad[j, i]
        yd = al * S * x + be * yd
        res, resd, partial, pat = y, yd, False, None
    check_ccs(res, what)
    R = matrix(res)
    if R.size != resd.size:
        raise Violation("%s: result size %r vs %r" % (what, R.size, resd.size))
    for idx in range(len(R)):
        i, j = idx % max(R.size[0], 1), idx // max(R.size[0], 1)
        if partial and pat is not None and (i, j) not in pat:
            if isinstance(res, spmatrix) and (i, j) in set(zip(res.I, res.J)):
                raise Violation("%s: partial=True created entry (%d,%d) outside the pattern of the output" % (what, i, j))
            continue
        if abs(R[idx] - resd[idx]) > 1e-12 * (1 + abs(resd[idx])):
            raise Violation("%s: entry (%d,%d) = %r, the dense computation gives %r" % (what, i, j, R[idx], resd[idx]))
    if f in ("axpy", "gemm") and isinstance(res, spmatrix) and not partial:
        pass
    labels.append("blas:" + f)


def rhs_objs(r):
    if "num" in r:
        v = dec(r["tc"], r["num"])
        return v, v
    if "dn" in r:
        return mk_dn(r["dn"]), mk_dn(r["dn"])
    S = mk_sp(r["sp"])
    return S, matrix(S)


def oracle(case, stats=None):
    op = case["op"]
    labels = ["op:" + op]
    out = "ok"
    if op == "ctor":
        tc, m, n = case["tc"], case["m"], case["n"]
        V = [dec(tc, v) for v in case["V"]]
        I, J = case["I"], case["J"]
        if case["scalarV"]:
            Varg = V[0] if V else 1.0
            V = [Varg] * len(I)
        else:
            Varg = V
        conv = {"list": list, "tuple": tuple, "imat": lambda x: matrix(x, (len(x), 1), "i")}[case["ikind"]]
        bad = any(not 0 <= i < m for i in I) or any(not 0 <= j < n for j in J)
        try:
            if case["give_size"]:
                A = spmatrix(Varg, conv(I), conv(J), (m, n), tc)
            else:
                A = spmatrix(Varg, conv(I), conv(J), tc=tc)
                m = max(I) + 1 if I else 0
                n = max(J) + 1 if J else 0
                bad = any(i < 0 for i in I) or any(j < 0 for j in J)
            err = None
        except EXC as e:
            A, err = None, e
        if bad:
            if err is None:
                raise Violation("spmatrix accepted an out-of-range index: I=%r J=%r size=%r" % (I, J, (m, n)))
            out = "refused"
        else:
            if err is not None:
                raise Violation("spmatrix(%r, %r, %r, size=%r) raised %s: %s" % (Varg, I, J, (m, n), type(err).__name__, err))
            check_ccs(A, "spmatrix()")
            want = {}
            for i, j, v in zip(I, J, V):
                want[(i, j)] = want.get((i, j), 0) + v        # duplicates are summed
            if A.size != (m, n) or A.typecode != tc:
                raise Violation("spmatrix size/typecode %r %r, expected %r %r" % (A.size, A.typecode, (m, n), tc))
            got = dict(((i, j), v) for i, j, v in zip(A.I, A.J, A.V))
            if set(got) != set(want) or any(got[k] != want[k] for k in want):
                raise Violation("spmatrix triplets %r, expected (duplicates summed, explicit zeros kept) %r" % (got, want))
    elif op == "sparsefn":
        src = mk_sp(case["src"]) if "I" in case["src"] else mk_dn(case["src"])
        if case["blocks"]:
            oth = mk_sp(case["other"]) if "I" in case["other"] else mk_dn(case["other"])
            out, R = both(lambda: sparse([[src], [oth]]), lambda: matrix([[matrix(src)], [matrix(oth)]]), "sparse([[A],[B]])",
                          expect_type="sparse")
        elif case.get("tc"):
            # "tc is the typecode, 'd' or 'z'": the same for a sparse and for a dense argument
            tcx = case["tc"]
            if tcx == "d" and src.typecode == "z":
                # a complex matrix cannot be converted to 'd': refused (an empty one may go either way)
                try:
                    R = sparse(src, tc=tcx)
                except TypeError:
                    R = None
                if R is not None and (len(matrix(src)) > 0 or R.typecode != "d"):
                    raise Violation("sparse(A, tc='d') with a complex %s A returned a %r matrix" % (type(src).__name__, R.typecode))
                if stats is not None:
                    stats.evaluated(case, False, labels + ["outcome:refused"])
                return
            out, R = both(lambda: sparse(src, tc=tcx), lambda: matrix(src, tc=tcx), "sparse(A, tc=%r) with a %s %r A" % (
                tcx, type(src).__name__, src.typecode), expect_type="sparse")
            if out == "ok" and R.typecode != tcx:
                raise Violation("sparse(A, tc=%r) with a %s %r A returned typecode %r" % (tcx, type(src).__name__, src.typecode, R.typecode))
        else:
            out, R = both(lambda: sparse(src), lambda: matrix(src), "sparse(A)", expect_type="sparse")
        if out == "ok" and any(v == 0 for v in R.V):
            raise Violation("sparse() kept a numerical zero in the triplet description: %r" % list(R.V))
    elif op == "blockgrid":
        blocks = [[mk_sp(b) if "I" in b else mk_dn(b) for b in col] for col in case["cols"]]
        labels.append("grid:%dx%d" % (len(blocks[0]), len(blocks)))
        if any(isinstance(b, spmatrix) and b.typecode == "z" and len(b) and i > 0 for col in blocks for i, b in enumerate(col)):
            labels.append("grid:complex-sparse-below")
        arg = blocks[0] if case["flat"] else blocks
        darg = [matrix(b) for b in blocks[0]] if case["flat"] else [[matrix(b) for b in col] for col in blocks]
        if all(b.size[0] * b.size[1] == 0 for col in blocks for b in col):
            if stats is not None:
                stats.evaluated(case, False, labels + ["unspecified:all_blocks_empty"])
            return
        out, R = both(lambda: sparse(arg), lambda: matrix(darg), "sparse(block list)", expect_type="sparse", same_class=False)
        if out == "ok" and any(v == 0 for v in R.V):
            raise Violation("sparse() kept a numerical zero in the triplet description: %r" % list(R.V))
    elif op == "spdiag":
        if case["usevec"] and case["vec"]["m"] == 0:
            if stats is not None:
                stats.evaluated(case, False, labels + ["unspecified:spdiag_of_empty_vector"])
            return
        if case["usevec"]:
            v = mk_sp(case["vec"]) if "I" in case["vec"] else mk_dn(case["vec"])
            labels.append("spdiag:%s_%s" % ("sparse" if isinstance(v, spmatrix) else "dense", "row" if v.size[0] == 1 else "col"))
            vd = matrix(v)
            vd = matrix(list(vd), (len(vd), 1), vd.typecode)
            out, R = both(lambda: spdiag(v), lambda: matrix([[vd[i] if i == j else 0.0 for i in range(len(vd))] for j in range(len(vd))],
                                                            (len(vd), len(vd)), vd.typecode) if len(vd) else matrix(0.0, (0, 0), vd.typecode),
                          "spdiag(vector)", expect_type="sparse")
        elif False:
            v = mk_dn(case["vec"])
            out, R = both(lambda: spdiag(v), lambda: matrix([[v[i] if i == j else 0.0 for i in range(len(v))] for j in range(len(v))],
                                                            (len(v), len(v)), v.typecode) if len(v) else matrix(0.0, (0, 0), v.typecode),
                          "spdiag(vector)", expect_type="sparse")
        else:
            items = [mk_sp(s) if "I" in s else mk_dn(s) for s in case["items"]]
            N = sum(x.size[0] for x in items)
            tc = "z" if any(x.typecode == "z" for x in items) else "d"

            def dn():
                D = matrix(0.0, (N, N), tc)
                o = 0
                for x in items:
                    k_ = x.size[0]
                    if k_:
                        D[o:o + k_, o:o + k_] = matrix(x, tc=tc)
                    o += k_
                return D
            out, R = both(lambda: spdiag(items), dn, "spdiag(list)", expect_type="sparse")
    elif op in ("get1", "get2"):
        A = mk_sp(case["A"])
        D = matrix(A)
        if op == "get1":
            k1 = key_obj(case["key"])
            out, R = both(lambda: A[k1], lambda: D[k1], "A[%r]" % (case["key"],))
        else:
            k1, k2 = key_obj(case["key"]), key_obj(case["key2"])
            out, R = both(lambda: A[k1, k2], lambda: D[k1, k2], "A[%r, %r]" % (case["key"], case["key2"]))
        if out == "ok" and isinstance(R, matrix):
            raise Violation("indexing a sparse matrix returned a dense matrix")
        check_ccs(A, "operand after indexing")
        if matrix(A) != D and list(matrix(A)) != list(D):
            raise Violation("indexing modified the matrix")
    elif op in ("set1", "set2"):
        A = mk_sp(case["A"])
        D = matrix(A)
        rs, rdn = rhs_objs(case["rhs"])
        n1 = A.size[0] * A.size[1] if op == "set1" else A.size[0]
        dup = key_has_dups(case["key"], n1) or (op == "set2" and key_has_dups(case["key2"], A.size[1]))
        if dup:
            labels.append("duplicate_lhs_indices")
        before = (list(A.CCS[0]), list(A.CCS[1]), list(A.CCS[2]))

        def fs():
            if op == "set1":
                A[key_obj(case["key"])] = rs
            else:
                A[key_obj(case["key"]), key_obj(case["key2"])] = rs
            return A

        def fd():
            # the dense matrix has the typecode of the sparse one: the type rules are then the same
            if op == "set1":
                D[key_obj(case["key"])] = rdn
            else:
                D[key_obj(case["key"]), key_obj(case["key2"])] = rdn
            return D
        what = "A[%r%s] = %s" % (case["key"], (", %r" % (case["key2"],)) if op == "set2" else "",
                                  {True: "number"}.get("num" in case["rhs"], "dense" if "dn" in case["rhs"] else "sparse"))
        sel_empty = False
        try:
            sel_empty = (len(D[key_obj(case["key"])]) == 0) if op == "set1" and case["key"][0] != "int" else \
                (op == "set2" and not (case["key"][0] == "int" and case["key2"][0] == "int") and
                 len(D[key_obj(case["key"]), key_obj(case["key2"])]) == 0)
        except EXC:
            pass
        if "sp" in case["rhs"] and (case["rhs"]["sp"]["m"], case["rhs"]["sp"]["n"]) == (1, 1):
            # only a 1x1 DENSE matrix is documented to act as a scalar
            if stats is not None:
                stats.evaluated(case, False, labels + ["unspecified:1x1_sparse_rhs"])
            return
        if sel_empty and "num" not in case["rhs"]:
            # which right-hand side sizes are accepted for an empty selection is not specified
            try:
                fs()
            except EXC:
                pass
            check_ccs(A, what)
            if list(matrix(A)) != list(D):
                raise Violation("%s: assignment to an empty selection changed the matrix" % what)
            out = "unspecified"
        elif dup and not ("num" in case["rhs"]):
            # order of writes for duplicate indices: only structural validity and the untouched entries are judged
            try:
                fs()
            except EXC:
                pass
            check_ccs(A, what)
            out = "dup"
        else:
            if case["key"][0] == "int" and (op == "set1" or case["key2"][0] == "int") and "sp" in case["rhs"]:
                # a sparse matrix as right-hand side for a single element: not specified by the manual
                out = "unspecified"
            else:
                out, R = both(fs, fd, what, same_class=False)
            check_ccs(A, what)
            if out == "refused" and (list(A.CCS[0]), list(A.CCS[1]), list(A.CCS[2])) != before:
                raise Violation("%s: refused assignment modified the matrix" % what)
    elif op in ("bin", "inplace"):
        A = mk_sp(case["A"])
        B = case["B"]
        Bs = mk_sp(B["sp"]) if "sp" in B else mk_dn(B["dn"])
        Ad, Bd = matrix(A), matrix(Bs)
        bop = case["bop"]
        L, Rr, Ld, Rd = (Bs, A, Bd, Ad) if (case["swap"] and op == "bin") else (A, Bs, Ad, Bd)
        both_sparse = isinstance(L, spmatrix) and isinstance(Rr, spmatrix)
        what = "%s %s %s (sizes %r, %r)" % ("sparse" if isinstance(L, spmatrix) else "dense", bop, "sparse" if isinstance(Rr, spmatrix) else "dense", L.size, Rr.size)
        if (isinstance(L, spmatrix) and L.size == (1, 1) and Rr.size != (1, 1)) or \
                (isinstance(Rr, spmatrix) and Rr.size == (1, 1) and L.size != (1, 1)):
            # only a 1x1 DENSE matrix is documented to act as a scalar
            if stats is not None:
                stats.evaluated(case, False, labels + ["unspecified:1x1_sparse_operand"])
            return
        if op == "bin":
            fs = {"add": lambda: L + Rr, "sub": lambda: L - Rr, "mul": lambda: L * Rr}[bop]
            fd = {"add": lambda: Ld + Rd, "sub": lambda: Ld - Rd, "mul": lambda: Ld * Rd}[bop]
            one = (not both_sparse) and ((isinstance(L, matrix) and L.size == (1, 1)) or (isinstance(Rr, matrix) and Rr.size == (1, 1)))
            et = "sparse" if both_sparse else ("dense" if not one else None)
            out, R = both(fs, fd, what, approx=(bop == "mul"), expect_type=et)
            for X in (A, Bs):
                check_ccs(X, "operand of " + what)
            if list(matrix(A)) != list(Ad) or list(matrix(Bs)) != list(Bd):
                raise Violation("%s modified an operand" % what)
            if out == "ok" and (R is A or R is Bs):
                raise Violation("%s returned one of its operands" % what)
        else:
            box = {"A": A}
            alias = A

            def fs():
                a = box["A"]
                if bop == "add":
                    a += Bs
                elif bop == "sub":
                    a -= Bs
                else:
                    a *= Bs
                box["A"] = a
                return a

            def fd():
                # in-place on sparse A is allowed only if the result stays sparse of the same type
                if isinstance(Bs, matrix) and bop in ("add", "sub"):
                    raise TypeError("sparse += dense would change the type")
                if bop == "mul" and not (isinstance(Bs, matrix) and Bs.size == (1, 1)):
                    raise TypeError("in-place matrix product")
                if Bd.typecode == "z" and Ad.typecode == "d":
                    raise TypeError("type would change")
                a = matrix(Ad)
                if bop == "add":
                    a += Bd
                elif bop == "sub":
                    a -= Bd
                else:
                    a *= Bd
                return a
            if bop == "mul" and isinstance(Bs, matrix) and Bs.size == (1, 1) and len(A) == 0:
                out = "unspecified"
            else:
                out, R = both(fs, fd, "in-place " + what)
                if out == "ok":
                    if box["A"] is not alias:
                        raise Violation("in-place %s created a new object" % what)
                    check_ccs(alias, "in-place " + what)
    elif op == "scal":
        A = mk_sp(case["A"])
        D = matrix(A)
        c_ = dec(case["ntc"], case["num"])
        if case["as_int"] and case["ntc"] == "d":
            c_ = int(c_)
        f = case["f"]
        what = "sparse %s number %r" % (f, c_)
        if f in ("imul", "idiv"):
            box = {"A": A}
            alias = A

            def fs():
                a = box["A"]
                if f == "imul":
                    a *= c_
                else:
                    a /= c_
                box["A"] = a
                return a

            def fd():
                if isinstance(c_, complex) and D.typecode == "d":
                    raise TypeError("type would change")
                return D * c_ if f == "imul" else D / c_
            out, R = both(fs, fd, what, approx=True)
            if out == "ok" and box["A"] is not alias:
                raise Violation("in-place scalar %s created a new object" % f)
            check_ccs(alias, what)
        else:
            fs = {"mul": lambda: A * c_, "rmul": lambda: c_ * A, "div": lambda: A / c_, "add": lambda: A + c_, "radd": lambda: c_ + A,
                  "sub": lambda: A - c_, "rsub": lambda: c_ - A}[f]
            fd = {"mul": lambda: D * c_, "rmul": lambda: c_ * D, "div": lambda: D / c_, "add": lambda: D + c_, "radd": lambda: c_ + D,
                  "sub": lambda: D - c_, "rsub": lambda: c_ - D}[f]
            out, R = both(fs, fd, what, approx=True, expect_type="sparse" if f in ("mul", "rmul", "div") else "dense")
            check_ccs(A, "operand of " + what)
    elif op == "unary":
        A = mk_sp(case["A"])
        D = matrix(A)
        f = case["f"]
        fs = {"neg": lambda: -A, "pos": lambda: +A, "abs": lambda: abs(A), "T": lambda: A.T, "H": lambda: A.H, "trans": lambda: A.trans(),
              "ctrans": lambda: A.ctrans(), "real": lambda: A.real(), "imag": lambda: A.imag(), "len": lambda: len(A),
              "bool": lambda: bool(A), "matrix": lambda: matrix(A), "copy": lambda: spmatrix(A.V, A.I, A.J, A.size)}[f]
        fd = {"neg": lambda: -D, "pos": lambda: +D, "abs": lambda: abs(D), "T": lambda: D.T, "H": lambda: D.H, "trans": lambda: D.trans(),
              "ctrans": lambda: D.ctrans(), "real": lambda: D.real(), "imag": lambda: D.imag(),
              "len": lambda: len(A.V), "bool": lambda: bool(D), "matrix": lambda: D, "copy": lambda: D}[f]
        if f in ("len", "bool"):
            # len(A) of a sparse matrix is the number of entries of its triplet description (documented);
            # bool(A) must agree with the dense image
            got = fs()
            if got != fd():
                raise Violation("%s(A) = %r for a sparse matrix with %d stored entries" % (f, got, len(A.V)))
        else:
            out, R = both(fs, fd, "unary " + f, expect_type=None if f == "matrix" else "sparse")
            if out == "ok" and R is A:
                raise Violation("unary %s returned the operand itself" % f)
        check_ccs(A, "operand of unary " + f)
        if list(matrix(A)) != list(D):
            raise Violation("unary %s modified the operand" % f)
    elif op == "setV":
        A = mk_sp(case["A"])
        nnz = len(A.V)
        newV = [dec(case["A"]["tc"], v) for v in case["newV"]][:nnz]
        if case["wrong"]:
            newV = newV + [newV[0] if newV else 1.0]
        I, J = list(A.I), list(A.J)
        try:
            A.V = matrix(newV, (len(newV), 1), A.typecode) if newV else matrix(0.0, (0, 1), A.typecode)
            err = None
        except EXC as e:
            err = e
        if len(newV) != nnz:
            if err is None:
                raise Violation("A.V accepted %d values for %d stored entries" % (len(newV), nnz))
            out = "refused"
        else:
            if err is not None:
                raise Violation("A.V = values raised %s: %s" % (type(err).__name__, err))
            check_ccs(A, "A.V assignment")
            if list(A.I) != I or list(A.J) != J or list(A.V) != newV:
                raise Violation("A.V assignment changed the pattern or stored other values")
    elif op == "resize":
        A = mk_sp(case["A"])
        D = matrix(A)
        size = tuple(case["size"])

        def fs():
            A.size = size
            return A

        def fd():
            D.size = size
            return D
        out, R = both(fs, fd, "size change to %r" % (size,))
        check_ccs(A, "size change")
    elif op == "foreign":
        out = foreign_case(case, labels)
    elif op == "blas":
        blas_case(case, labels)
    else:
        raise AssertionError(op)
    A_ = case.get("A")
    nontrivial = out == "ok" and ((A_ is not None and len(A_.get("I", ())) > 0 and (
        (op in ("get1", "get2", "set1", "set2") and (case["key"][0] in ("list", "imat") or (op.endswith("2") and case["key2"][0] in ("list", "imat"))))
        or op in ("bin", "inplace") or (op in ("set1", "set2") and "sp" in case["rhs"]))) or op == "blas")
    if stats is not None:
        stats.evaluated(case, nontrivial, labels + ["outcome:" + out])


class _Inst:
    """an ordinary Python object with attributes, no arithmetic"""
    def __init__(self):
        self.a, self.b, self.c, self.d = 1.5, [1, 2, 3], {"k": 2}, "text"


class _Refl:
    """an object that implements the reflected and direct operators itself"""
    def _r(self, other):
        return ("handled", type(other).__name__)
    __add__ = __radd__ = __sub__ = __rsub__ = __mul__ = __rmul__ = __truediv__ = __rtruediv__ = __mod__ = __rmod__ = _r
    __pow__ = __rpow__ = _r


def foreign_case(case, labels):
    """A matrix combined with an object that is neither a matrix nor a number of a convertible size: the operator must
    hand over to the other operand (NotImplemented -> TypeError, or the other operand's own method) or raise; it must
    not touch memory, leave an exception pending, or modify the matrix."""
    import operator as O
    A = mk_sp(case["A"]) if "I" in case["A"] else mk_dn(case["A"])
    image = (A.size, A.typecode, list(matrix(A)))
    kind = case["obj"]
    obj = {"none": None, "str": "s", "object": object(), "list": [1, 2], "tuple": (1.0,), "dict": {1: 2}, "inst": _Inst(),
           "refl": _Refl(), "bigint": 2 ** 70, "hugeint": 2 ** 2000, "bytes": b"ab"}[kind]
    f = getattr(O, case["bop"])
    labels.append("foreign:" + kind)
    outcome = "refused"
    for rep in range(3):
        accepted = True
        try:
            r = f(obj, A) if case["swap"] else f(A, obj)
        except EXC:
            r = None
            accepted = False
        except SystemError as e:
            raise Violation("%s with a %s operand: SystemError %s" % (case["bop"], kind, e))
        # an exception left pending by the operator surfaces as SystemError in the next call of a C function
        try:
            _Inst()
        except SystemError as e:
            raise Violation("%s of a %s '%s' matrix and a %s operand (%s) returned a result and left an exception pending: %s" % (
                case["bop"], type(A).__name__, A.typecode, kind, "reflected" if case["swap"] else "direct", e.__cause__ or e))
        if accepted:
            if kind == "refl":
                if not (isinstance(r, tuple) and r and r[0] == "handled"):
                    raise Violation("%s with an operand that implements the operator itself did not defer to it: got %r" % (case["bop"], type(r).__name__))
                outcome = "ok"
            elif kind == "bigint" and (A.typecode != "i" or case["bop"] in ("truediv", "pow")):
                outcome = "ok"        # 2**70 is representable as a double (division and powers of 'i' matrices are 'd')
            elif kind in ("bigint", "hugeint") and case["bop"] in ("pow",) and case["swap"]:
                outcome = "ok"
            elif kind in ("str", "bytes", "list", "tuple") and case["swap"] and case["bop"] in ("mod", "imod", "mul", "imul", "add", "iadd"):
                outcome = "ok"        # the sequence / string type's own operator decides ("%s" % A, ...)
            else:
                raise Violation("%s of a %s matrix and a %s operand (%s) was accepted and returned %s" % (
                    case["bop"], type(A).__name__, kind, "reflected" if case["swap"] else "direct", type(r).__name__))
        if not case["bop"].startswith("i") or r is None:
            if (A.size, A.typecode, list(matrix(A))) != image:
                raise Violation("%s with a %s operand modified the matrix" % (case["bop"], kind))
    check_ccs(A, "operand after " + case["bop"])
    if type(NotImplemented).__name__ != "NotImplementedType" or NotImplemented is None:
        raise Violation("NotImplemented singleton damaged")
    return outcome


# ------------------------------------------------------------------ mutation histories

@st.composite
def history_strategy(draw):
    A = draw(sp_st(maxdim=3))
    steps = []
    for _ in range(draw(st.integers(3, 10))):
        k = draw(st.sampled_from(["set1", "set2", "set2", "iadd", "imul", "setV", "T", "resize"]))
        s = dict(k=k)
        if k == "set1":
            s.update(key=draw(key_st(A["m"] * A["n"])), num=draw(val_st(A["tc"])))
        elif k == "set2":
            s.update(key=draw(key_st(A["m"])), key2=draw(key_st(A["n"])), num=draw(val_st(A["tc"])), sparse_rhs=draw(st.booleans()),
                     seed=draw(st.integers(0, 9999)))
        elif k == "iadd":
            s.update(seed=draw(st.integers(0, 9999)), sub=draw(st.booleans()))
        elif k == "imul":
            s.update(c=draw(st.sampled_from([2.0, -1.0, 0.5, 0.0])))
        steps.append(s)
    return dict(A=A, steps=steps)


def history_oracle(case, stats=None):
    A = mk_sp(case["A"])
    D = matrix(A)
    alias = A
    tc = A.typecode
    nmut = 0
    for idx, s in enumerate(case["steps"]):
        k = s["k"]
        where = "step %d %r" % (idx, s)
        m, n = A.size
        try:
            if k == "set1":
                v = dec(tc, s["num"])
                A[key_obj(s["key"])] = v
                es = None
            elif k == "set2":
                rng = np.random.RandomState(s["seed"])
                key1, key2 = key_obj(s["key"]), key_obj(s["key2"])
                if s["sparse_rhs"]:
                    try:
                        shp = D[key1, key2].size if not (isinstance(key1, int) and isinstance(key2, int)) else None
                    except EXC:
                        shp = None
                    if shp is None or key_has_dups(s["key"], m) or key_has_dups(s["key2"], n):
                        continue
                    v = rnd_sp(rng, tc, shp[0], shp[1])
                else:
                    v = dec(tc, s["num"])
                A[key1, key2] = v
                es = None
            elif k == "iadd":
                rng = np.random.RandomState(s["seed"])
                v = rnd_sp(rng, tc, m, n)
                if s["sub"]:
                    A -= v
                else:
                    A += v
                es = None
            elif k == "imul":
                A *= s["c"]
                v = s["c"]
                es = None
            elif k == "setV":
                v = matrix([x * 2 for x in A.V], (len(A.V), 1), tc) if len(A.V) else matrix(0.0, (0, 1), tc)
                A.V = v
                es = None
            elif k == "T":
                A = A.T.T
                alias = A
                v = None
                es = None
            else:
                A.size = (n, m)
                v = None
                es = None
        except EXC as e:
            es = e
        try:
            if k == "set1":
                D[key_obj(s["key"])] = v if es is None else dec(tc, s["num"])
            elif k == "set2":
                D[key_obj(s["key"]), key_obj(s["key2"])] = (matrix(v) if isinstance(v, spmatrix) else v) if es is None else dec(tc, s["num"])
            elif k == "iadd":
                if es is None:
                    D = D - matrix(v) if s["sub"] else D + matrix(v)
            elif k == "imul":
                D = D * s["c"]
            elif k == "setV":
                if es is None:
                    D = matrix(A)
            elif k == "resize":
                D.size = (n, m)
            ed = None
        except EXC as e:
            ed = e
        if (es is None) != (ed is None):
            raise Violation("%s: sparse %s, dense %s" % (where, "raised %s: %s" % (type(es).__name__, es) if es else "ok",
                                                        "raised %s: %s" % (type(ed).__name__, ed) if ed else "ok"))
        check_ccs(A, where)
        msg = same(A, D, approx=True)
        if msg:
            raise Violation("%s: dense image differs: %s" % (where, msg))
        if es is None:
            nmut += 1
    if stats is not None:
        stats.evaluated(case, nmut >= 3 and len(case["A"]["I"]) > 0, ["history", "mutations:%d" % min(nmut, 5)])


def search(ctx, stats):
    asan = ctx.part.endswith("_asan")          # same generators; the asan parts run fewer cases (ASan is ~6x slower)
    if ctx.part.startswith("histories"):
        n = ctx.n(3000, 100000) if asan else ctx.n(12000, 300000)
        v = run_given(history_strategy(), lambda c: history_oracle(c, stats), ctx.seed, n, stats, journal=ctx.journal)
    else:
        n = ctx.n(10000, 400000) if asan else ctx.n(60000, 2000000)
        v = run_given(case_strategy(), lambda c: oracle(c, stats), ctx.seed, n, stats, journal=ctx.journal)
    return [v] if v else []


def replay(case, part):
    try:
        (history_oracle if part.startswith("histories") else oracle)(case)
    except Violation as v:
        return v.msg
    return None
