"""C13 — an op object stays consistent under any sequence of edits.

Histories (lists of edit steps over a generated pool of variables, constraints
and objectives) are executed on a real `op` and on a plain list model; after
every step the bookkeeping is compared, and `solve` steps are compared with a
freshly constructed op over the model's objective and constraint list.
"""
import json
from hypothesis import strategies as st
from vlib.harness import Violation, run_given, canon

from cvxopt import matrix, spmatrix
from cvxopt import modeling
from cvxopt.modeling import variable, op, constraint

OPTS = {"show_progress": False}

dy = st.integers(-8, 8).map(lambda k: k / 2.0)
dynz = dy.filter(lambda v: v != 0)


@st.composite
def pool_spec(draw):
    nv = draw(st.integers(2, 4))
    lens = [draw(st.integers(1, 3)) for _ in range(nv)]
    x0 = [[draw(dy) for _ in range(l)] for l in lens]
    cons = []
    # box per variable (so that problems are usually bounded)
    for i in range(nv):
        cons.append(dict(kind=draw(st.sampled_from(["box_abs", "box_lo", "box_hi"])), vars=[i]))
    nc = draw(st.integers(2, 6))
    for _ in range(nc):
        kind = draw(st.sampled_from(["ineq", "ineq", "eq", "abs", "max", "novar", "sumabs", "abs_plus_max"]))
        k = draw(st.integers(1, min(3, nv)))
        vs = draw(st.permutations(list(range(nv))))[:k]
        r = draw(st.integers(1, 2))
        coef = []
        for v in vs:
            if draw(st.booleans()) and lens[v] in (1, r):
                # scalar coefficient (broadcast); only when lengths are compatible
                coef.append(draw(dynz))
            else:
                coef.append([[draw(dy) for _ in range(lens[v])] for _ in range(r)])
        cons.append(dict(kind=kind, vars=list(vs), rows=r, coef=coef,
                         slack=draw(st.integers(1, 8)) / 2.0))
    objs = []
    for _ in range(draw(st.integers(2, 4))):
        kind = draw(st.sampled_from(["aff", "aff", "abs", "max", "const"]))
        k = draw(st.integers(1, min(2, nv)))
        vs = draw(st.permutations(list(range(nv))))[:k]
        objs.append(dict(kind=kind, vars=list(vs),
                         coef=[[draw(dy) for _ in range(lens[v])] for v in vs]))
    return dict(lens=lens, x0=x0, cons=cons, objs=objs)


step = st.one_of(
    st.tuples(st.just("add"), st.integers(0, 15)),
    st.tuples(st.just("add"), st.integers(0, 15)),
    st.tuples(st.just("del"), st.integers(0, 15)),
    st.tuples(st.just("del"), st.integers(0, 15)),
    st.tuples(st.just("del_present"), st.integers(0, 15)),
    st.tuples(st.just("obj"), st.integers(0, 7)),
    st.tuples(st.just("obj_aug"), st.integers(0, 23)),
    st.tuples(st.just("solve"), st.sampled_from(["dense", "sparse"])),
    st.tuples(st.just("mutate_lists"), st.integers(0, 3)),
    st.tuples(st.just("bad_arg"), st.integers(0, 3)),
)


@st.composite
def case_strategy(draw):
    spec = draw(pool_spec())
    ncons = len(spec["cons"])
    init_cons = draw(st.lists(st.integers(0, ncons - 1), max_size=ncons + 2))
    init_obj = draw(st.integers(0, len(spec["objs"]) - 1))
    init_form = draw(st.sampled_from(["list", "single", "none"]))
    steps = draw(st.lists(step, min_size=1, max_size=14))
    return dict(spec=spec, init_cons=init_cons, init_obj=init_obj, init_form=init_form,
                steps=[list(s) for s in steps])


# ---------------------------------------------------------------- interpreter

def _affine(spec, vars_, c):
    """sum_j A_j*x_j as a modeling function and its value at x0 (list of floats)."""
    f = None
    val = None
    for v, co in zip(c["vars"], c["coef"]):
        x = vars_[v]
        x0 = spec["x0"][v]
        if isinstance(co, list):
            A = matrix([[float(a) for a in row] for row in co]).T   # rows x len
            t = A * x
            tv = [sum(a * b for a, b in zip(row, x0)) for row in co]
        else:
            t = co * x
            tv = [co * b for b in x0]
        f = t if f is None else f + t
        if val is None:
            val = tv
        else:
            if len(val) == 1 and len(tv) > 1:
                val = val * len(tv)
            if len(tv) == 1 and len(val) > 1:
                tv = tv * len(val)
            val = [a + b for a, b in zip(val, tv)]
    return f, val


def build_pool(spec):
    vars_ = [variable(l, "v%d" % i) for i, l in enumerate(spec["lens"])]
    cons = []
    for c in spec["cons"]:
        kind = c["kind"]
        if kind.startswith("box"):
            x = vars_[c["vars"][0]]
            x0 = matrix([float(a) for a in spec["x0"][c["vars"][0]]])
            if kind == "box_abs":
                cons.append(abs(x - x0) <= 4.0)
            elif kind == "box_lo":
                cons.append(x >= x0 - 4.0)
            else:
                cons.append(x <= x0 + 4.0)
            continue
        if kind == "novar":
            cons.append(0 * vars_[c["vars"][0]] <= c["slack"])
            continue
        f, val = _affine(spec, vars_, c)
        b = matrix([float(a) for a in val])
        if kind == "ineq":
            cons.append(f <= b + c["slack"])
        elif kind == "eq":
            cons.append(f == b)
        elif kind == "abs":
            cons.append(abs(f - b) <= c["slack"])
        elif kind == "max":
            cons.append(modeling.max(f - b, -2.0 * (f - b)) <= c["slack"])
        elif kind == "sumabs":
            # several piecewise-linear terms in one constraint (the general branch of the epigraph reformulation)
            cons.append(modeling.sum(abs(f - b)) <= c["slack"])
        elif kind == "abs_plus_max":
            cons.append(abs(f - b) + modeling.max(f - b, -2.0 * (f - b)) + 0.5 * (f - b) <= c["slack"])
        else:
            raise AssertionError(kind)
    objs = []
    for o in spec["objs"]:
        f = None
        for v, co in zip(o["vars"], o["coef"]):
            x = vars_[v]
            cm = matrix([float(a) for a in co])
            if o["kind"] == "abs":
                t = modeling.sum(abs(x - cm))
            elif o["kind"] == "max":
                t = modeling.max(modeling.dot(cm, x), -modeling.sum(x))
            else:
                t = modeling.dot(cm, x)
            f = t if f is None else f + t
        if o["kind"] == "const":
            f = 2.5
        objs.append(f)
    return vars_, cons, objs


def _objvars(o):
    if isinstance(o, (int, float)):
        return []
    return list(o.variables())


class Exec:
    def __init__(self, case):
        self.case = case
        self.spec = case["spec"]
        self.vars, self.cons, self.objs = build_pool(self.spec)
        # pristine twins of every pool object, never handed to the edited op: the fresh op of a solve step is built from
        # them, so that damage done to a constraint or objective object by an earlier step cannot hide on both sides
        self.vars2, self.cons2, self.objs2 = build_pool(self.spec)
        # (variables() of a well-formed constraint or function never raises: an exception here is the library's)
        self.cvars = self.guarded("variables() of the pool constraints", lambda: [sorted(v.name for v in c.variables()) for c in self.cons])
        self.ovars = self.guarded("variables() of the pool objectives", lambda: [sorted(v.name for v in _objvars(f)) for f in self.objs])
        init = [self.cons[i] for i in case["init_cons"]]
        obj = self.objs[case["init_obj"]]
        form = case["init_form"]
        if form == "single" and len(init) >= 1:
            init = init[:1]
            self.op = op(obj, init[0])
        elif form == "none" or (form == "single" and not init):
            init = []
            self.op = op(obj, None)
        else:
            self.op = op(obj, list(init))
        self.m_obj = obj
        self.recipe = ("pool", case["init_obj"])         # how the current objective is obtained from the pool (for the twin)
        self.m_ineq = [c for c in init if c.type() == "<"]
        self.m_eq = [c for c in init if c.type() == "="]
        self.labels = set()
        self.deleted_multi = False
        self.obj_changed = False
        self.nontrivial = False
        self.check("init")

    # -- invariants
    def fail(self, where, msg):
        raise Violation("after %s: %s" % (where, msg))

    def check(self, where):
        o = self.op
        want = []
        for f in [self.m_obj] + self.m_ineq + self.m_eq:
            for v in (_objvars(f) if f is self.m_obj else f.variables()):
                if not any(v is w for w in want):
                    want.append(v)
        got = o.variables()
        if len(got) != len(want) or any(not any(v is w for w in want) for v in got) or \
                len({id(v) for v in got}) != len(got):
            self.fail(where, "variables() = %s but objective+constraints use %s" % (
                sorted(v.name for v in got), sorted(v.name for v in want)))
        for name, g, w in (("inequalities", o.inequalities(), self.m_ineq),
                           ("equalities", o.equalities(), self.m_eq),
                           ("constraints", o.constraints(), self.m_ineq + self.m_eq)):
            if len(g) != len(w) or any(a is not b for a, b in zip(g, w)):
                self.fail(where, "%s() has %d entries %s, model has %d %s" % (
                    name, len(g), [self._cid(c) for c in g], len(w), [self._cid(c) for c in w]))
        # the pool objects themselves are not modified by anything the op does with them
        for i, c in enumerate(self.cons):
            now = self.guarded("variables() of pool constraint %d" % i, lambda: sorted(v.name for v in c.variables()))
            if now != self.cvars[i] or any(not any(v is w for w in self.vars) for v in c.variables()):
                self.fail(where, "constraint %d of the pool now involves the variables %s, it was built over %s" % (i, now, self.cvars[i]))
        for i, f in enumerate(self.objs):
            now = sorted(v.name for v in _objvars(f))
            if now != self.ovars[i]:
                self.fail(where, "objective %d of the pool now involves the variables %s, it was built over %s" % (i, now, self.ovars[i]))
        # returned lists are copies
        for getter in (o.inequalities, o.equalities, o.constraints, o.variables):
            l1 = getter()
            l2 = getter()
            if l1 is l2:
                self.fail(where, "%s() returns the same list object twice" % getter.__name__)

    def _cid(self, c):
        for i, d in enumerate(self.cons):
            if d is c:
                return i
        return "?"

    def guarded(self, where, fn):
        try:
            return fn()
        except Exception as e:
            raise Violation("%s raised %s: %s" % (where, type(e).__name__, e))

    # -- steps
    def step(self, s):
        kind, arg = s
        o = self.op
        if kind == "add":
            c = self.cons[arg % len(self.cons)]
            self.guarded(s, lambda: o.addconstraint(c))
            (self.m_ineq if c.type() == "<" else self.m_eq).append(c)
        elif kind in ("del", "del_present"):
            if kind == "del_present":
                cur = self.m_ineq + self.m_eq
                if not cur:
                    return
                c = cur[arg % len(cur)]
            else:
                c = self.cons[arg % len(self.cons)]
            lst = self.m_ineq if c.type() == "<" else self.m_eq
            present = any(d is c for d in lst)
            self.guarded(s, lambda: o.delconstraint(c))
            if present:
                for i, d in enumerate(lst):
                    if d is c:
                        del lst[i]
                        break
                if len(c.variables()) >= 2:
                    self.deleted_multi = True
                if self.obj_changed:
                    self.nontrivial = True
                self.labels.add("del_present")
            else:
                self.labels.add("del_absent")
        elif kind == "obj":
            f = self.objs[arg % len(self.objs)]
            self.guarded(s, lambda: setattr(o, 'objective', f))
            self.m_obj = f
            self.recipe = ("pool", arg % len(self.objs))
            self.obj_changed = True
            self.labels.add("obj_reassign")
        elif kind == "obj_aug":
            # augmented assignment to the attribute: Python updates the function held by the op IN PLACE and assigns it
            # back (lp.objective += f, lp.objective *= 0).  The op first gets a private copy of a pool objective.
            i, j, zero = arg % len(self.objs), (arg // 3) % len(self.objs), arg % 3 == 0
            if isinstance(self.objs[i], (int, float)) or isinstance(self.objs[j], (int, float)):
                return
            self.guarded(s, lambda: setattr(o, 'objective', +self.objs[i]))

            def aug():
                if zero:
                    o.objective *= 0
                o.objective += self.objs[j]
            self.guarded(s, aug)
            self.m_obj = o.objective
            self.recipe = ("aug", i, j, zero)
            self.obj_changed = True
            self.labels.add("obj_augmented" + ("_zeroed" if zero else ""))
        elif kind == "mutate_lists":
            for l in (o.inequalities(), o.equalities(), o.constraints(), o.variables()):
                if arg % 2 == 0:
                    del l[:]
                else:
                    l.append(self.cons[0])
                    l.reverse()
        elif kind == "bad_arg":
            bad = [None, 3, "c", self.vars[0]][arg % 4]
            for fn in (o.addconstraint, o.delconstraint):
                try:
                    fn(bad)
                except TypeError:
                    pass
                else:
                    self.fail(str(s), "%s(%r) did not raise TypeError" % (fn.__name__, bad))
        elif kind == "solve":
            self.solve(arg)
            if self.deleted_multi:
                self.nontrivial = True
        else:
            raise AssertionError(kind)
        self.check(str(s))

    def _solve1(self, p, fmt):
        try:
            p.solve(fmt, options=OPTS)
        except Exception as e:
            # whatever solve() does with this problem (explicit TypeError for "no variable"/"no inequality",
            # the LP solver's rank ValueError, ...) is judged by C12; here only edited == fresh matters
            return ("raises", type(e).__name__, str(e)), None
        ov = p.objective.value()
        return p.status, (None if ov is None else float(ov[0]))

    def solve(self, fmt):
        if self.recipe[0] == "pool":
            twin_obj = self.objs2[self.recipe[1]]
        else:
            _, i, j, zero = self.recipe
            twin_obj = +self.objs2[i]
            if zero:
                twin_obj *= 0
            twin_obj += self.objs2[j]
        fresh = op(twin_obj, [self.cons2[self._cid(c)] for c in list(self.m_ineq) + list(self.m_eq)])
        st2, v2 = self._solve1(fresh, fmt)
        st1, v1 = self._solve1(self.op, fmt)
        self.labels.add("solve:" + (st1 if isinstance(st1, str) else st1[1]))
        if isinstance(st1, tuple) or isinstance(st2, tuple):
            k1 = st1[1] if isinstance(st1, tuple) else st1
            k2 = st2[1] if isinstance(st2, tuple) else st2
            # a rank failure depends on the column order only through rounding: same class expected,
            # but ValueError on one side only is tolerated (numerical)
            if k1 != k2 and "ValueError" not in (k1, k2):
                self.fail("solve", "edited op: %r, fresh op: %r" % (st1, st2))
            if k1 == k2 == "TypeError" and st1 != st2:
                self.fail("solve", "edited op: %r, fresh op: %r" % (st1, st2))
            return
        if "unknown" in (st1, st2):
            self.labels.add("solve:skipped_unknown")
            return
        if st1 != st2:
            self.fail("solve", "status of edited op %r != status of fresh op %r" % (st1, st2))
        if st1 == "optimal":
            if v1 is None or v2 is None or abs(v1 - v2) > 1e-5 * (1.0 + abs(v2)):
                self.fail("solve", "optimal value of edited op %r != fresh op %r" % (v1, v2))


def oracle(case, stats=None):
    ex = Exec(case)
    for s in case["steps"]:
        ex.step(s)
    if stats is not None:
        stats.evaluated(case, ex.nontrivial, sorted(ex.labels))


def search(ctx, stats):
    if ctx.part == "fuzz":
        # same histories and oracle, driven by libFuzzer (atheris) on the branch coverage of cvxopt/modeling.py
        from vlib.harness import run_fuzz
        v = run_fuzz(case_strategy(), lambda c: oracle(c, stats), ctx.seed, ctx.n(1200, 60000), stats, journal=ctx.journal)
        return [v] if v else []
    n = ctx.n(12000, 300000)
    v = run_given(case_strategy(), lambda c: oracle(c, stats), ctx.seed, n, stats)
    return [v] if v else []


def replay(case, part):
    try:
        oracle(case)
    except Violation as v:
        return v.msg
    return None
