"""C18 — LAPACK wrappers return results that satisfy their defining equations."""
import numpy as np
from hypothesis import strategies as st
from vlib.harness import Violation, run_given

from cvxopt import matrix, lapack

TOL = 2e-10


# ------------------------------------------------------------------ embedding of logical matrices in buffers

class Emb:
    """logical r x c matrix stored in a cvxopt matrix with leading dimension ld at offset off; junk elsewhere"""

    def __init__(self, name, arr, lay, rng, tc=None):
        arr = np.atleast_2d(np.asarray(arr))
        self.name, self.r, self.c = name, arr.shape[0], arr.shape[1]
        self.tc = tc or ("z" if np.iscomplexobj(arr) else "d")
        self.nat = bool(lay["nat"])
        if self.nat:
            self.ld, self.off = max(1, self.r), 0
            shape = (self.r, self.c)
        else:
            self.ld, self.off = max(1, self.r) + lay["ldx"], lay["off"]
            # whole LAPACK array extent A(ld, cols): some wrappers require offset + cols*ld elements (e.g. orgqr)
            need = self.off + max(self.c, 1) * self.ld + lay["pad"]
            cols = max(1, -(-need // self.ld))
            shape = (self.ld, cols)
        L = shape[0] * shape[1]
        junk = (rng.randint(1, 9, size=L) * 1e4 + rng.randint(0, 1000, size=L)) * rng.choice([-1.0, 1.0], size=L)
        buf = junk.astype(complex if self.tc == "z" else float)
        if self.tc == "z":
            buf = buf + 1j * junk[::-1]
        self.idx = np.array([[self.off + i + j * self.ld for j in range(self.c)] for i in range(self.r)], dtype=int).reshape(self.r, self.c)
        for i in range(self.r):
            for j in range(self.c):
                buf[self.idx[i, j]] = arr[i, j]
        conv = complex if self.tc == "z" else float
        self.M = matrix([conv(v) for v in buf], shape, self.tc)
        self.before = list(self.M)

    def kw(self, ld=True, off=True, suffix=None):
        s = suffix or self.name
        if self.nat:
            return {}
        d = {}
        if ld:
            d["ld" + s] = self.ld
        if off:
            d["offset" + s] = self.off
        return d

    def block(self):
        now = list(self.M)
        dt = complex if self.tc == "z" else float
        out = np.zeros((self.r, self.c), dtype=dt)
        for i in range(self.r):
            for j in range(self.c):
                out[i, j] = now[self.idx[i, j]]
        return out

    def outside_unchanged(self, what):
        now = list(self.M)
        inside = set(int(v) for v in self.idx.flatten())
        for k in range(len(now)):
            if k not in inside and repr(now[k]) != repr(self.before[k]):
                raise Violation("%s: element %d of %s (outside the addressed %dx%d block, ld=%d, offset=%d) changed %r -> %r"
                                % (what, k, self.name, self.r, self.c, self.ld, self.off, self.before[k], now[k]))

    def unchanged(self, what):
        if [repr(v) for v in self.M] != [repr(v) for v in self.before]:
            raise Violation("%s: %s was modified although the documentation says it is not" % (what, self.name))


def vec(n, tc, rng=None, extra=0, val=None):
    L = n + extra
    if tc == "i":
        return matrix([int(7 + k) for k in range(L)], (L, 1), "i")
    if val is not None:
        vals = list(val) + [3e4 + k for k in range(extra)]
    else:
        vals = [2e4 + k for k in range(n)] + [3e4 + k for k in range(extra)]
    if tc == "z":
        return matrix([complex(v) for v in vals], (L, 1), "z")
    return matrix([float(np.real(v)) for v in vals], (L, 1), "d")


# ------------------------------------------------------------------ random matrices

def rnd(rng, r, c, z):
    A = rng.randint(-16, 17, size=(r, c)) / 8.0
    if z:
        A = A + 1j * (rng.randint(-16, 17, size=(r, c)) / 8.0)
    return A


def orth(rng, n, z):
    if n == 0:
        return np.zeros((0, 0), dtype=complex if z else float)
    G = rng.standard_normal((n, n))
    if z:
        G = G + 1j * rng.standard_normal((n, n))
    Q, R = np.linalg.qr(G)
    return Q


def wellcond(rng, n, z):
    s = 0.5 + 1.5 * rng.rand(n)
    return (orth(rng, n, z) * s) @ orth(rng, n, z).conj().T


def spd(rng, n, z):
    Q = orth(rng, n, z)
    A = (Q * (0.5 + 1.5 * rng.rand(n))) @ Q.conj().T
    A = (A + A.conj().T) / 2
    return A


def herm_indef(rng, n, z):
    Q = orth(rng, n, z)
    s = (0.5 + 1.5 * rng.rand(n)) * rng.choice([-1.0, 1.0], size=n)
    A = (Q * s) @ Q.conj().T
    return (A + A.conj().T) / 2


def csym(rng, n, z):
    """real symmetric indefinite or complex symmetric, well conditioned"""
    Q = orth(rng, n, False)
    s = (0.5 + 1.5 * rng.rand(n)) * rng.choice([-1.0, 1.0], size=n)
    if z:
        s = s * np.exp(1j * rng.rand(n) * 2 * np.pi)
    A = (Q * s) @ Q.T
    return (A + A.T) / 2


def tri(rng, n, z, uplo, unit):
    A = rnd(rng, n, n, z) / 4.0
    for i in range(n):
        A[i, i] = (1.0 + rng.rand()) * rng.choice([-1.0, 1.0]) * (np.exp(1j * rng.rand()) if z else 1.0)
    A = np.tril(A) if uplo == "L" else np.triu(A)
    return A


def only_triangle(A, uplo, rng):
    """the other triangle is junk: it must not be referenced"""
    B = A.copy()
    n = A.shape[0]
    for i in range(n):
        for j in range(n):
            if (uplo == "L" and i < j) or (uplo == "U" and i > j):
                B[i, j] = 5e4 + 100 * i + j
    return B


def opn(A, t):
    return A if t == "N" else (A.T if t == "T" else A.conj().T)


def near(X, Y, scale=1.0, tol=TOL):
    X, Y = np.asarray(X), np.asarray(Y)
    if X.shape != Y.shape:
        return False
    if X.size == 0:
        return True
    return bool(np.all(np.abs(X - Y) <= tol * max(1.0, scale) * max(1, max(X.shape))))


def resid_ok(A, X, B):
    if B.size == 0:
        return True
    sc = np.linalg.norm(A, 1) * np.linalg.norm(X, 1) + np.linalg.norm(B, 1) if A.size else 1.0
    return bool(np.linalg.norm(A @ X - B, 1) <= TOL * max(1.0, sc) * max(A.shape + (1,)))


def expect_arith(f, what):
    try:
        f()
    except ArithmeticError:
        return
    except Exception as e:       # noqa
        raise Violation("%s: exactly singular / not positive definite input raised %s (%s) instead of ArithmeticError" % (what, type(e).__name__, e))
    raise Violation("%s: exactly singular / not positive definite input was accepted" % what)


def call(f, what, *a, **k):
    try:
        return getattr(lapack, f)(*a, **k)
    except Exception as e:       # noqa
        raise Violation("%s: lapack.%s raised %s: %s" % (what, f, type(e).__name__, e))


def dims(case, allnat, **d):
    """dimension keyword arguments; omitted (defaults) only if every operand has its natural shape"""
    if allnat and case["omit"]:
        return {}
    return d


# ------------------------------------------------------------------ families

def fam_gesv(case, rng):
    z, n, nrhs, t = case["tc"] == "z", case["n"], case["nrhs"], case["trans"]
    A = wellcond(rng, n, z)
    if case["singular"] and n > 0:
        A[:, rng.randint(n)] = 0
    B = rnd(rng, n, nrhs, z)
    L = case["lay"]
    what = "%s(%s) n=%d nrhs=%d trans=%s singular=%r lay=%r" % (case["var"], case["tc"], n, nrhs, t, case["singular"], L[:2])
    eA, eB = Emb("A", A, L[0], rng), Emb("B", B, L[1], rng)
    kw = dict(eA.kw(), **eB.kw())
    allnat = eA.nat and eB.nat
    if case["var"] == "gesv":
        ip = vec(n, "i", extra=case["extra"]) if case["ipiv"] else None
        kw.update(dims(case, allnat, n=n, nrhs=nrhs))
        if ip is not None:
            kw["ipiv"] = ip
        if case["singular"] and n > 0:
            return expect_arith(lambda: lapack.gesv(eA.M, eB.M, **kw), what)
        call("gesv", what, eA.M, eB.M, **kw)
        X = eB.block()
        if not resid_ok(A, X, B):
            raise Violation("%s: residual ||AX-B|| too large; X=%r" % (what, X.tolist()))
        if ip is None:
            eA.unchanged(what + " (ipiv not provided)")
        else:
            # the factors must reproduce the solution through getrs
            eB2 = Emb("B", B, L[1], rng)
            call("getrs", what + " then getrs", eA.M, ip, eB2.M, **dict(eA.kw(), **dict(eB2.kw(), **dims(case, allnat, n=n, nrhs=nrhs))))
            if not near(eB2.block(), X, np.max(np.abs(X)) if X.size else 1):
                raise Violation("%s: getrs with the factors returned by gesv differs from the gesv solution" % what)
        eA.outside_unchanged(what)
        eB.outside_unchanged(what)
    else:   # getrf + getrs / getri
        m = case["m"] if case["var"] == "getrf" else n
        if case["var"] == "getrf":
            A = rnd(rng, m, n, z)
            eA = Emb("A", A, L[0], rng)
        ip = vec(min(m, n), "i", extra=case["extra"])
        kwf = dict(eA.kw(), **dims(case, eA.nat, m=m, n=n))
        if case["var"] != "getrf" and case["singular"] and n > 0:
            return expect_arith(lambda: lapack.getrf(eA.M, ip, **kwf), what)
        try:
            lapack.getrf(eA.M, ip, **kwf)
        except ArithmeticError:
            if case["var"] == "getrf":
                return "singular"       # random rectangular data may be singular (e.g. a zero column)
            raise Violation("%s: getrf raised ArithmeticError for a well conditioned matrix" % what)
        except Exception as e:   # noqa
            raise Violation("%s: getrf raised %s: %s" % (what, type(e).__name__, e))
        F = eA.block()
        eA.outside_unchanged(what)
        k = min(m, n)
        piv = list(ip)[:k]
        if list(ip)[k:] != [7 + i for i in range(k, k + case["extra"])]:
            raise Violation("%s: getrf wrote beyond the first min(m,n) entries of ipiv" % what)
        if any(not (i + 1 <= p <= m) for i, p in enumerate(piv)):
            raise Violation("%s: ipiv %r is not a valid pivot sequence" % (what, piv))
        Lm = np.tril(F[:, :k], -1) + np.eye(m, k)
        U = np.triu(F[:k, :])
        PA = A.copy()
        for i, p in enumerate(piv):
            PA[[i, p - 1], :] = PA[[p - 1, i], :]
        if not near(Lm @ U, PA, np.max(np.abs(A)) if A.size else 1):
            raise Violation("%s: P*A != L*U" % what)
        if case["var"] == "getrs":
            call("getrs", what, eA.M, ip, eB.M, trans=t, **dict(kw, **dims(case, allnat, n=n, nrhs=nrhs)))
            if not resid_ok(opn(A, t), eB.block(), B):
                raise Violation("%s: residual of op(A)X=B too large" % what)
            eB.outside_unchanged(what)
            if not near(eA.block(), F):
                raise Violation("%s: getrs modified the factors" % what)
        elif case["var"] == "getri":
            call("getri", what, eA.M, ip, **dict(eA.kw(), **dims(case, eA.nat, n=n)))
            if not near(eA.block() @ A, np.eye(n), 4):
                raise Violation("%s: inv(A)*A != I" % what)
            eA.outside_unchanged(what)


def band_store(A, kl, ku, top):
    """BLAS general band storage with `top` extra rows on top"""
    m, n = A.shape
    S = np.zeros((top + kl + ku + 1, n), dtype=A.dtype)
    for j in range(n):
        for i in range(max(0, j - ku), min(m, j + kl + 1)):
            S[top + ku + i - j, j] = A[i, j]
    return S


def fam_gbsv(case, rng):
    z, n, nrhs, kl, ku, t = case["tc"] == "z", case["n"], case["nrhs"], case["kl"], case["ku"], case["trans"]
    A = rnd(rng, n, n, z) / 4.0
    for i in range(n):
        for j in range(n):
            if j - i > ku or i - j > kl:
                A[i, j] = 0
        A[i, i] = 2.0 + rng.rand()
    if case["singular"] and n > 0:
        A[:, rng.randint(n)] = 0
    B = rnd(rng, n, nrhs, z)
    L = case["lay"]
    what = "%s(%s) n=%d nrhs=%d kl=%d ku=%d trans=%s singular=%r" % (case["var"], case["tc"], n, nrhs, kl, ku, t, case["singular"])
    eB = Emb("B", B, L[1], rng)
    if case["var"] == "gbsv" and not case["ipiv"]:
        eA = Emb("A", band_store(A, kl, ku, 0), L[0], rng)
        kw = dict(eA.kw(), **eB.kw())
        kw.update(dims(case, eA.nat and eB.nat, n=n, nrhs=nrhs))
        kw["ku"] = ku
        if case["singular"] and n > 0:
            return expect_arith(lambda: lapack.gbsv(eA.M, kl, eB.M, **kw), what)
        call("gbsv", what, eA.M, kl, eB.M, **kw)
        if not resid_ok(A, eB.block(), B):
            raise Violation("%s: residual too large" % what)
        eA.unchanged(what + " (ipiv not provided)")
        eB.outside_unchanged(what)
        return
    eA = Emb("A", band_store(A, kl, ku, kl), L[0], rng)
    ip = vec(n, "i", extra=case["extra"])
    allnat = eA.nat and eB.nat
    kw = dict(eA.kw(), **eB.kw())
    if case["var"] == "gbsv":
        kw.update(dims(case, allnat, n=n, nrhs=nrhs, ku=ku))
        if case["singular"] and n > 0:
            return expect_arith(lambda: lapack.gbsv(eA.M, kl, eB.M, ipiv=ip, **kw), what)
        call("gbsv", what, eA.M, kl, eB.M, ipiv=ip, **kw)
        X = eB.block()
        if not resid_ok(A, X, B):
            raise Violation("%s: residual too large" % what)
        eB2 = Emb("B", B, L[1], rng)
        call("gbtrs", what + " then gbtrs", eA.M, kl, ip, eB2.M, **dict(eA.kw(), **dict(eB2.kw(), **dims(case, allnat, n=n, nrhs=nrhs, ku=ku))))
        if not near(eB2.block(), X, np.max(np.abs(X)) if X.size else 1):
            raise Violation("%s: gbtrs with the factors of gbsv differs from the gbsv solution" % what)
    else:
        kwf = dict(eA.kw(), **dims(case, eA.nat, n=n, ku=ku))
        if case["singular"] and n > 0:
            return expect_arith(lambda: lapack.gbtrf(eA.M, n, kl, ip, **kwf), what)
        call("gbtrf", what, eA.M, n, kl, ip, **kwf)
        call("gbtrs", what, eA.M, kl, ip, eB.M, trans=t, **dict(kw, **dims(case, allnat, n=n, nrhs=nrhs, ku=ku)))
        if not resid_ok(opn(A, t), eB.block(), B):
            raise Violation("%s: residual of op(A)X=B too large" % what)
    eA.outside_unchanged(what)
    eB.outside_unchanged(what)


def fam_gtsv(case, rng):
    z, n, nrhs, t = case["tc"] == "z", case["n"], case["nrhs"], case["trans"]
    dl, d, du = rnd(rng, max(n - 1, 0), 1, z)[:, 0] / 2, rnd(rng, n, 1, z)[:, 0] / 4, rnd(rng, max(n - 1, 0), 1, z)[:, 0] / 2
    d = d + 3.0
    if case["singular"] and n > 0:
        d[:] = 0
        dl[:] = 0
        du[:] = 0
    A = np.diag(d) + np.diag(dl, -1) + np.diag(du, 1) if n > 0 else np.zeros((0, 0))
    B = rnd(rng, n, nrhs, z)
    tc = case["tc"]
    ex = case["extra"]
    what = "%s(%s) n=%d nrhs=%d trans=%s singular=%r" % (case["var"], tc, n, nrhs, t, case["singular"])
    eB = Emb("B", B, case["lay"][1], rng)
    Mdl, Md, Mdu = vec(max(n - 1, 0), tc, val=dl, extra=ex), vec(n, tc, val=d, extra=0), vec(max(n - 1, 0), tc, val=du, extra=ex)
    kw = dict(eB.kw())
    if not (eB.nat and case["omit"]):
        kw.update(n=n, nrhs=nrhs)
    if case["var"] == "gtsv":
        if case["singular"] and n > 0:
            return expect_arith(lambda: lapack.gtsv(Mdl, Md, Mdu, eB.M, **kw), what)
        call("gtsv", what, Mdl, Md, Mdu, eB.M, **kw)
        if not resid_ok(A, eB.block(), B):
            raise Violation("%s: residual too large" % what)
    else:
        du2, ip = vec(max(n - 2, 0), tc, extra=ex), vec(n, "i", extra=ex)
        kwf = {} if case["omit"] else {"n": n}
        if case["singular"] and n > 0:
            return expect_arith(lambda: lapack.gttrf(Mdl, Md, Mdu, du2, ip, **kwf), what)
        call("gttrf", what, Mdl, Md, Mdu, du2, ip, **kwf)
        call("gttrs", what, Mdl, Md, Mdu, du2, ip, eB.M, trans=t, **kw)
        if not resid_ok(opn(A, t), eB.block(), B):
            raise Violation("%s: residual of op(A)X=B too large" % what)
        if list(ip)[n:] != [7 + i for i in range(n, n + ex)]:
            raise Violation("%s: gttrf wrote beyond the first n entries of ipiv" % what)
    eB.outside_unchanged(what)
    for nm, Mv, ln in (("dl", Mdl, max(n - 1, 0)), ("du", Mdu, max(n - 1, 0))):
        if [complex(v) for v in list(Mv)[ln:]] != [complex(3e4 + k) for k in range(ex)]:
            raise Violation("%s: %s changed beyond its first n-1 entries" % (what, nm))


def fam_posv(case, rng):
    z, n, nrhs, uplo = case["tc"] == "z", case["n"], case["nrhs"], case["uplo"]
    A = spd(rng, n, z)
    if case["singular"] and n > 0:
        i = rng.randint(n)
        A[i, i] = -1.0
    B = rnd(rng, n, nrhs, z)
    L = case["lay"]
    var = case["var"]
    what = "%s(%s) n=%d nrhs=%d uplo=%s notpd=%r" % (var, case["tc"], n, nrhs, uplo, case["singular"])
    eA, eB = Emb("A", only_triangle(A, uplo, rng), L[0], rng), Emb("B", B, L[1], rng)
    allnat = eA.nat and eB.nat
    kw = dict(eA.kw(), **eB.kw())

    def chol_ok():
        F = eA.block()
        T = np.tril(F) if uplo == "L" else np.triu(F)
        R = T @ T.conj().T if uplo == "L" else T.conj().T @ T
        if not near(R, A, 4):
            raise Violation("%s: Cholesky factor does not reproduce A" % what)
        other = np.triu(F, 1) if uplo == "L" else np.tril(F, -1)
        oth0 = np.triu(only_triangle(A, uplo, rng), 1) if uplo == "L" else np.tril(only_triangle(A, uplo, rng), -1)
        if not np.array_equal(other, oth0):
            raise Violation("%s: the triangle opposite to uplo was modified" % what)
    if var == "posv":
        kw.update(dims(case, allnat, n=n, nrhs=nrhs))
        if case["singular"] and n > 0:
            return expect_arith(lambda: lapack.posv(eA.M, eB.M, uplo=uplo, **kw), what)
        call("posv", what, eA.M, eB.M, uplo=uplo, **kw)
        if not resid_ok(A, eB.block(), B):
            raise Violation("%s: residual too large" % what)
        chol_ok()
    else:
        kwf = dict(eA.kw(), **dims(case, eA.nat, n=n))
        if case["singular"] and n > 0:
            return expect_arith(lambda: lapack.potrf(eA.M, uplo=uplo, **kwf), what)
        call("potrf", what, eA.M, uplo=uplo, **kwf)
        chol_ok()
        if var == "potrs":
            call("potrs", what, eA.M, eB.M, uplo=uplo, **dict(kw, **dims(case, allnat, n=n, nrhs=nrhs)))
            if not resid_ok(A, eB.block(), B):
                raise Violation("%s: residual too large" % what)
        elif var == "potri":
            call("potri", what, eA.M, uplo=uplo, **kwf)
            F = eA.block()
            T = np.tril(F) if uplo == "L" else np.triu(F)
            Inv = T + T.conj().T - np.diag(np.diag(T).real)
            if not near(Inv @ A, np.eye(n), 4):
                raise Violation("%s: inverse (uplo triangle) times A != I" % what)
    eA.outside_unchanged(what)
    eB.outside_unchanged(what)


def sband_store(A, kd, uplo):
    n = A.shape[0]
    S = np.zeros((kd + 1, n), dtype=A.dtype)
    for j in range(n):
        for i in range(n):
            if uplo == "L" and 0 <= i - j <= kd:
                S[i - j, j] = A[i, j]
            if uplo == "U" and 0 <= j - i <= kd:
                S[kd + i - j, j] = A[i, j]
    return S


def fam_pbsv(case, rng):
    z, n, nrhs, uplo, kd = case["tc"] == "z", case["n"], case["nrhs"], case["uplo"], case["kl"]
    A = rnd(rng, n, n, z) / 4.0
    A = (A + A.conj().T) / 2
    for i in range(n):
        for j in range(n):
            if abs(i - j) > kd:
                A[i, j] = 0
        A[i, i] = 3.0 + rng.rand()
    if case["singular"] and n > 0:
        i = rng.randint(n)
        A[i, i] = -1.0
    B = rnd(rng, n, nrhs, z)
    var, L = case["var"], case["lay"]
    what = "%s(%s) n=%d nrhs=%d kd=%d uplo=%s notpd=%r" % (var, case["tc"], n, nrhs, kd, uplo, case["singular"])
    eA, eB = Emb("A", sband_store(A, kd, uplo), L[0], rng), Emb("B", B, L[1], rng)
    allnat = eA.nat and eB.nat
    kw = dict(eA.kw(), **eB.kw())
    if var == "tbtrs":
        t, dg = case["trans"], case["diag"]
        T = tri(rng, n, z, uplo, False)
        for i in range(n):
            for j in range(n):
                if abs(i - j) > kd:
                    T[i, j] = 0
        if case["singular"] and n > 0 and dg == "N":
            T[rng.randint(n), :] = 0
        Tl = T.copy()
        if dg == "U":
            np.fill_diagonal(Tl, 1.0)
        St = sband_store(T, kd, uplo)
        if dg == "U" and n > 0:
            St[0 if uplo == "L" else kd, :] = 7e4       # diagonal not referenced
        eA = Emb("A", St, L[0], rng)
        kw = dict(eA.kw(), **eB.kw())
        kw.update(dims(case, eA.nat and eB.nat, n=n, kd=kd, nrhs=nrhs))
        what += " trans=%s diag=%s" % (t, dg)
        if case["singular"] and n > 0 and dg == "N":
            return expect_arith(lambda: lapack.tbtrs(eA.M, eB.M, uplo=uplo, trans=t, diag=dg, **kw), what)
        call("tbtrs", what, eA.M, eB.M, uplo=uplo, trans=t, diag=dg, **kw)
        if not resid_ok(opn(Tl, t), eB.block(), B):
            raise Violation("%s: residual too large" % what)
        eA.unchanged(what)
        eB.outside_unchanged(what)
        return
    if var == "pbsv":
        kw.update(dims(case, allnat, n=n, kd=kd, nrhs=nrhs))
        if case["singular"] and n > 0:
            return expect_arith(lambda: lapack.pbsv(eA.M, eB.M, uplo=uplo, **kw), what)
        call("pbsv", what, eA.M, eB.M, uplo=uplo, **kw)
    else:
        kwf = dict(eA.kw(), **dims(case, eA.nat, n=n, kd=kd))
        if case["singular"] and n > 0:
            return expect_arith(lambda: lapack.pbtrf(eA.M, uplo=uplo, **kwf), what)
        call("pbtrf", what, eA.M, uplo=uplo, **kwf)
        call("pbtrs", what, eA.M, eB.M, uplo=uplo, **dict(kw, **dims(case, allnat, n=n, kd=kd, nrhs=nrhs)))
    if not resid_ok(A, eB.block(), B):
        raise Violation("%s: residual too large" % what)
    eA.outside_unchanged(what)
    eB.outside_unchanged(what)


def fam_ptsv(case, rng):
    z, n, nrhs, uplo = case["tc"] == "z", case["n"], case["nrhs"], case["uplo"]
    d = 3.0 + rng.rand(n)
    e = rnd(rng, max(n - 1, 0), 1, z)[:, 0] / 2
    if case["singular"] and n > 0:
        d[rng.randint(n)] = -1.0
    A = (np.diag(d) + np.diag(e, -1) + np.diag(e.conj(), 1)) if n > 0 else np.zeros((0, 0))
    B = rnd(rng, n, nrhs, z)
    var, tc, ex = case["var"], case["tc"], case["extra"]
    what = "%s(%s) n=%d nrhs=%d uplo=%s notpd=%r" % (var, tc, n, nrhs, uplo, case["singular"])
    eB = Emb("B", B, case["lay"][1], rng)
    Md, Me = vec(n, "d", val=d), vec(max(n - 1, 0), tc, val=e, extra=ex)
    kw = dict(eB.kw())
    if not (eB.nat and case["omit"]):
        kw.update(n=n, nrhs=nrhs)
    if var == "ptsv":
        if case["singular"] and n > 0:
            return expect_arith(lambda: lapack.ptsv(Md, Me, eB.M, **kw), what)
        call("ptsv", what, Md, Me, eB.M, **kw)
        if not resid_ok(A, eB.block(), B):
            raise Violation("%s: residual too large" % what)
    else:
        kwf = {} if case["omit"] else {"n": n}
        if case["singular"] and n > 0:
            return expect_arith(lambda: lapack.pttrf(Md, Me, **kwf), what)
        call("pttrf", what, Md, Me, **kwf)
        if uplo == "U" and z:
            # pttrs with uplo='U' expects the superdiagonal of L^H, i.e. conj(e)
            Me2 = vec(max(n - 1, 0), tc, val=np.conj(np.array(list(Me)[:max(n - 1, 0)])), extra=ex)
        else:
            Me2 = Me
        call("pttrs", what, Md, Me2, eB.M, uplo=uplo, **kw)
        if not resid_ok(A, eB.block(), B):
            raise Violation("%s: residual too large" % what)
    eB.outside_unchanged(what)
    if [complex(v) for v in list(Me)[max(n - 1, 0):]] != [complex(3e4 + k) for k in range(ex)]:
        raise Violation("%s: e changed beyond its first n-1 entries" % what)


def fam_sysv(case, rng):
    z, n, nrhs, uplo = case["tc"] == "z", case["n"], case["nrhs"], case["uplo"]
    var = case["var"]
    herm = var.startswith("he")
    A = herm_indef(rng, n, z) if herm else csym(rng, n, z)
    if case["singular"] and n > 0:
        A[:] = 0
    B = rnd(rng, n, nrhs, z)
    L = case["lay"]
    what = "%s(%s) n=%d nrhs=%d uplo=%s singular=%r ipiv=%r" % (var, case["tc"], n, nrhs, uplo, case["singular"], case["ipiv"])
    eA, eB = Emb("A", only_triangle(A, uplo, rng), L[0], rng), Emb("B", B, L[1], rng)
    allnat = eA.nat and eB.nat
    kw = dict(eA.kw(), **eB.kw())
    pre = "he" if herm else "sy"
    if var in ("sysv", "hesv"):
        kw.update(dims(case, allnat, n=n, nrhs=nrhs))
        ip = vec(n, "i", extra=case["extra"]) if case["ipiv"] else None
        if ip is not None:
            kw["ipiv"] = ip
        if case["singular"] and n > 0:
            return expect_arith(lambda: getattr(lapack, var)(eA.M, eB.M, uplo=uplo, **kw), what)
        call(var, what, eA.M, eB.M, uplo=uplo, **kw)
        X = eB.block()
        if not resid_ok(A, X, B):
            raise Violation("%s: residual too large" % what)
        if ip is None:
            eA.unchanged(what + " (ipiv not provided)")
        else:
            eB2 = Emb("B", B, L[1], rng)
            call(pre + "trs", what + " then trs", eA.M, ip, eB2.M, uplo=uplo, **dict(eA.kw(), **dict(eB2.kw(), **dims(case, allnat, n=n, nrhs=nrhs))))
            if not near(eB2.block(), X, np.max(np.abs(X)) if X.size else 1):
                raise Violation("%s: %strs with the factors of %s differs from its solution" % (what, pre, var))
    else:
        ip = vec(n, "i", extra=case["extra"])
        kwf = dims(case, eA.nat, n=n)
        kwf.update(eA.kw())
        if case["singular"] and n > 0:
            return expect_arith(lambda: getattr(lapack, pre + "trf")(eA.M, ip, uplo=uplo, **kwf), what)
        call(pre + "trf", what, eA.M, ip, uplo=uplo, **kwf)
        if list(ip)[n:] != [7 + i for i in range(n, n + case["extra"])]:
            raise Violation("%s: wrote beyond the first n entries of ipiv" % what)
        if var.endswith("trs"):
            call(var, what, eA.M, ip, eB.M, uplo=uplo, **dict(kw, **dims(case, allnat, n=n, nrhs=nrhs)))
            if not resid_ok(A, eB.block(), B):
                raise Violation("%s: residual too large" % what)
        else:
            call(var, what, eA.M, ip, uplo=uplo, **dict(eA.kw(), **dims(case, eA.nat, n=n)))
            F = eA.block()
            T = np.tril(F) if uplo == "L" else np.triu(F)
            Inv = T + (T.conj().T if herm else T.T) - np.diag(np.diag(T))
            if herm:
                Inv = Inv - 1j * np.diag(np.diag(Inv).imag)
            if not near(Inv @ A, np.eye(n), 8):
                raise Violation("%s: inverse (uplo triangle) times A != I" % what)
    eA.outside_unchanged(what)
    eB.outside_unchanged(what)


def fam_trtrs(case, rng):
    z, n, nrhs, uplo, t, dg = case["tc"] == "z", case["n"], case["nrhs"], case["uplo"], case["trans"], case["diag"]
    var = case["var"]
    T = tri(rng, n, z, uplo, False)
    sing = case["singular"] and n > 0 and dg == "N"
    if sing:
        i = rng.randint(n)
        T[i, i] = 0
    Tl = T.copy()
    if dg == "U":
        np.fill_diagonal(Tl, 1.0)
    store = only_triangle(T, uplo, rng)
    if dg == "U":
        np.fill_diagonal(store, 7e4)
    B = rnd(rng, n, nrhs, z)
    L = case["lay"]
    what = "%s(%s) n=%d nrhs=%d uplo=%s trans=%s diag=%s singular=%r" % (var, case["tc"], n, nrhs, uplo, t, dg, sing)
    eA, eB = Emb("A", store, L[0], rng), Emb("B", B, L[1], rng)
    if var == "trtrs":
        kw = dict(eA.kw(), **eB.kw())
        kw.update(dims(case, eA.nat and eB.nat, n=n, nrhs=nrhs))
        if sing:
            return expect_arith(lambda: lapack.trtrs(eA.M, eB.M, uplo=uplo, trans=t, diag=dg, **kw), what)
        call("trtrs", what, eA.M, eB.M, uplo=uplo, trans=t, diag=dg, **kw)
        if not resid_ok(opn(Tl, t), eB.block(), B):
            raise Violation("%s: residual too large" % what)
        eA.unchanged(what)
        eB.outside_unchanged(what)
    else:
        kw = dict(eA.kw(), **dims(case, eA.nat, n=n))
        if sing:
            return expect_arith(lambda: lapack.trtri(eA.M, uplo=uplo, diag=dg, **kw), what)
        call("trtri", what, eA.M, uplo=uplo, diag=dg, **kw)
        F = eA.block()
        Inv = np.tril(F) if uplo == "L" else np.triu(F)
        if dg == "U":
            np.fill_diagonal(Inv, 1.0)
        if not near(Inv @ Tl, np.eye(n), 8):
            raise Violation("%s: inv(T)*T != I" % what)
        eA.outside_unchanged(what)


def fam_gels(case, rng):
    z, m, n, nrhs, t = case["tc"] == "z", case["m"], case["n"], case["nrhs"], case["trans"]
    if z and t == "T":
        t = "C"
    if m == 0 or n == 0:
        m, n = max(m, 1), max(n, 1)
    k = min(m, n)
    U, V = orth(rng, m, z), orth(rng, n, z)
    S = np.zeros((m, n))
    for i in range(k):
        S[i, i] = 0.5 + 1.5 * rng.rand()
    A = U @ S @ V.conj().T
    Aop = opn(A, t)             # rows x cols
    rows, cols = Aop.shape
    Bl = rnd(rng, rows, nrhs, z)
    Bfull = np.zeros((max(m, n), nrhs), dtype=A.dtype)
    Bfull[:rows, :] = Bl
    L = case["lay"]
    what = "gels(%s) m=%d n=%d nrhs=%d trans=%s" % (case["tc"], m, n, nrhs, t)
    eA, eB = Emb("A", A, L[0], rng), Emb("B", Bfull, L[1], rng)
    kw = dict(eA.kw(), **eB.kw())
    kw.update(dims(case, eA.nat and eB.nat, m=m, n=n, nrhs=nrhs))
    call("gels", what, eA.M, eB.M, trans=t, **kw)
    X = eB.block()[:cols, :]
    Xref = np.linalg.pinv(Aop) @ Bl
    if not near(X, Xref, 8 * (1 + (np.max(np.abs(Xref)) if Xref.size else 0))):
        raise Violation("%s: solution differs from the least-squares / least-norm solution (pinv)" % what)
    eA.outside_unchanged(what)
    eB.outside_unchanged(what)


def fam_qr(case, rng):
    z, m, n, side, t = case["tc"] == "z", case["m"], case["n"], case["side"], case["trans"]
    var = case["var"]
    lq = var in ("gelqf", "orglq", "ormlq")
    A = rnd(rng, m, n, z)
    k = min(m, n)
    L = case["lay"]
    tc = case["tc"]
    pre = ("un" if (z or case["ipiv"]) else "or")       # un* accept real matrices as well
    what = "%s(%s) m=%d n=%d side=%s trans=%s prefix=%s" % (var, tc, m, n, side, t, pre)
    eA = Emb("A", A, L[0], rng)
    tau = vec(k, tc, extra=case["extra"])
    kwf = dict(eA.kw(), **dims(case, eA.nat, m=m, n=n))
    if var == "geqp3":
        jp = matrix([0] * n, (n, 1), "i")
        call("geqp3", what, eA.M, jp, tau, **kwf)
        if k == 0:
            return "empty"
        perm = [p - 1 for p in jp]
        if sorted(perm) != list(range(n)):
            raise Violation("%s: jpvt %r is not a permutation" % (what, list(jp)))
        R = np.triu(eA.block())[:k, :]
        F = eA.block()
        call(pre + "gqr", what, eA.M, tau, **dict(eA.kw(), m=m, n=k, k=k))
        Q = eA.block()[:, :k]
        if not near(Q @ R, A[:, perm], 4):
            raise Violation("%s: A*P != Q*R" % what)
        dg = np.abs(np.diag(R))
        if any(dg[i] < dg[i + 1] * (1 - 1e-9) - 1e-12 for i in range(len(dg) - 1)):
            raise Violation("%s: |diag(R)| not non-increasing: %r" % (what, dg.tolist()))
        eA.outside_unchanged(what)
        return
    call("gelqf" if lq else "geqrf", what, eA.M, tau, **kwf)
    F = eA.block()
    if [complex(v) for v in list(tau)[k:]] != [complex(3e4 + i) for i in range(case["extra"])]:
        raise Violation("%s: tau changed beyond its first min(m,n) entries" % what)
    eA.outside_unchanged(what)
    # explicit Q from the reflectors (reference: Householder products computed here)
    taus = np.array(list(tau)[:k])
    if lq:
        # A = L*Q,  Q = H(k)^H ... H(1)^H,  H(i) = I - tau_i v_i v_i^H,  v_i[i]=1, conj(v_i[i+1:]) stored in row i
        Q = np.eye(n, dtype=A.dtype)
        for i in range(k):
            v = np.zeros(n, dtype=A.dtype)
            v[i] = 1
            v[i + 1:] = F[i, i + 1:].conj()
            Q = (np.eye(n, dtype=A.dtype) - np.conj(taus[i]) * np.outer(v, v.conj())) @ Q
        if not near(np.tril(F) @ Q, A, 4):
            raise Violation("%s: A != L*Q" % what)
    else:
        # A = Q*R,  Q = H(1) ... H(k)
        Q = np.eye(m, dtype=A.dtype)
        for i in range(k):
            v = np.zeros(m, dtype=A.dtype)
            v[i] = 1
            v[i + 1:] = F[i + 1:, i]
            Q = Q @ (np.eye(m, dtype=A.dtype) - taus[i] * np.outer(v, v.conj()))
        if not near(Q @ np.triu(F), A, 4):
            raise Violation("%s: A != Q*R" % what)
    if not near(Q.conj().T @ Q, np.eye(Q.shape[0]), 4):
        raise Violation("%s: reflectors do not define a unitary Q" % what)
    if var in ("orgqr", "orglq"):
        if lq:
            rows_out = k
            if case["omit"] and eA.nat and case["extra"] == 0 and m <= n:
                call(pre + "glq", what, eA.M, tau)
            else:
                call(pre + "glq", what, eA.M, tau, **dict(eA.kw(), m=rows_out, n=n, k=k))
            G = eA.block()[:rows_out, :]
            if not near(G, Q[:rows_out, :], 4):
                raise Violation("%s: generated rows differ from the rows of Q" % what)
        else:
            cols_out = k
            if case["omit"] and eA.nat and case["extra"] == 0:
                call(pre + "gqr", what, eA.M, tau)
            else:
                call(pre + "gqr", what, eA.M, tau, **dict(eA.kw(), m=m, n=cols_out, k=k))
            G = eA.block()[:, :cols_out]
            if not near(G, Q[:, :cols_out], 4):
                raise Violation("%s: generated columns differ from the columns of Q" % what)
        eA.outside_unchanged(what)
    elif var in ("ormqr", "ormlq"):
        qn = n if lq else m
        cm, cn = (qn, case["nrhs"]) if side == "L" else (case["nrhs"], qn)
        C = rnd(rng, cm, cn, z)
        eC = Emb("C", C, L[1], rng)
        tt = t
        if pre == "or" and tt == "C":
            tt = "T"
        if z and tt == "T":
            tt = "C"                 # Q^T of a complex Q is not offered by LAPACK (unmqr takes 'N' or 'C')
        kw = dict(eA.kw(), **eC.kw())
        kw["k"] = k
        if not (eA.nat and eC.nat and case["omit"]):
            kw.update(m=cm, n=cn)
        call(pre + ("mlq" if lq else "mqr"), what, eA.M, tau, eC.M, side=side, trans=tt, **kw)
        Qo = opn(Q, tt)
        ref = Qo @ C if side == "L" else C @ Qo
        if not near(eC.block(), ref, 8):
            raise Violation("%s: result differs from the product with the explicit Q (trans=%s)" % (what, tt))
        eC.outside_unchanged(what)
        if not near(eA.block(), F):
            raise Violation("%s: the factorization in A was modified" % what)


def fam_eig(case, rng):
    z, n, uplo, jobz, var = case["tc"] == "z", case["n"], case["uplo"], case["jobz"], case["var"]
    A = herm_indef(rng, n, z) * 2
    L = case["lay"]
    rngk = case["range"]
    what = "%s(%s) n=%d uplo=%s jobz=%s range=%s il=%d iu=%d" % (var, case["tc"], n, uplo, jobz, rngk, case["il"], case["iu"])
    eA = Emb("A", only_triangle(A, uplo, rng), L[0], rng)
    W = vec(n, "d", extra=case["extra"])
    ev = np.linalg.eigvalsh(A) if n else np.zeros(0)
    kw = dict(eA.kw(), **dims(case, eA.nat, n=n))
    if var in ("sygv", "hegv"):
        Bm = spd(rng, n, z)
        eB = Emb("B", only_triangle(Bm, uplo, rng), L[1], rng)
        it = case["itype"]
        kw = dict(eA.kw(), **eB.kw())
        kw.update(dims(case, eA.nat and eB.nat, n=n))
        what += " itype=%d" % it
        call(var, what, eA.M, eB.M, W, itype=it, jobz=jobz, uplo=uplo, **kw)
        w = np.array(list(W)[:n])
        Lc = np.linalg.cholesky(Bm) if n else np.zeros((0, 0))
        if it == 1:
            Li = np.linalg.inv(Lc) if n else Lc
            ref = np.linalg.eigvalsh(Li @ A @ Li.conj().T) if n else ev
        else:
            ref = np.linalg.eigvalsh(Lc.conj().T @ A @ Lc) if n else ev
        if not near(w, ref, 16):
            raise Violation("%s: eigenvalues %r, reference %r" % (what, w.tolist(), ref.tolist()))
        if jobz == "V" and n:
            Z = eA.block()
            if it == 1:
                ok = near(A @ Z, Bm @ Z * w, 16) and near(Z.conj().T @ Bm @ Z, np.eye(n), 16)
            elif it == 2:
                ok = near(A @ Bm @ Z, Z * w, 32) and near(Z.conj().T @ Bm @ Z, np.eye(n), 16)
            else:
                ok = near(Bm @ A @ Z, Z * w, 32) and near(Z.conj().T @ np.linalg.inv(Bm) @ Z, np.eye(n), 16)
            if not ok:
                raise Violation("%s: eigenvectors do not satisfy the documented equations / normalisation" % what)
        eA.outside_unchanged(what)
        eB.outside_unchanged(what)
    elif var in ("syev", "heev", "syevd", "heevd"):
        call(var, what, eA.M, W, jobz=jobz, uplo=uplo, **kw)
        w = np.array(list(W)[:n])
        if not near(w, ev, 8):
            raise Violation("%s: eigenvalues %r, reference %r" % (what, w.tolist(), ev.tolist()))
        if jobz == "V" and n:
            Z = eA.block()
            if not (near(A @ Z, Z * w, 16) and near(Z.conj().T @ Z, np.eye(n), 8)):
                raise Violation("%s: A*Z != Z*diag(W) or Z not orthonormal" % what)
        eA.outside_unchanged(what)
    else:
        kw2 = dict(kw)
        if rngk == "V":
            # interval chosen in gaps between eigenvalues
            cuts = sorted(set([float(np.floor(ev.min()) - 1)] + [float((ev[i] + ev[i + 1]) / 2) for i in range(n - 1) if ev[i + 1] - ev[i] > 1e-3] + [float(np.ceil(ev.max()) + 1)])) if n else [0.0, 1.0]
            lo = cuts[case["il"] % len(cuts)]
            hi = cuts[case["iu"] % len(cuts)]
            if lo > hi:
                lo, hi = hi, lo
            if lo == hi:
                lo, hi = cuts[0], cuts[-1]
            kw2.update(vl=lo, vu=hi)
            sel = [i for i in range(n) if lo < ev[i] <= hi]
        elif rngk == "I":
            if n == 0:
                return "skipped"
            il = 1 + case["il"] % n
            iu = il + case["iu"] % (n - il + 1)
            kw2.update(il=il, iu=iu)
            sel = list(range(il - 1, iu))
        else:
            sel = list(range(n))
        Z = None
        if jobz == "V":
            eZ = Emb("Z", np.zeros((n, n if rngk != "I" else len(sel)), dtype=A.dtype) + 9e4, L[1], rng, tc=case["tc"])
            kw2["Z"] = eZ.M
            kw2.update(eZ.kw())
        mret = call(var, what, eA.M, W, jobz=jobz, range=rngk, uplo=uplo, **kw2)
        if mret != len(sel):
            raise Violation("%s: returned m=%r, %d eigenvalues lie in the requested range (all: %r)" % (what, mret, len(sel), ev.tolist()))
        w = np.array(list(W)[:len(sel)])
        if not near(w, ev[sel] if len(sel) else np.zeros(0), 8):
            raise Violation("%s: eigenvalues %r, reference %r" % (what, w.tolist(), ev[sel].tolist()))
        if jobz == "V" and len(sel):
            Zb = eZ.block()[:, :len(sel)]
            if not (near(A @ Zb, Zb * w, 16) and near(Zb.conj().T @ Zb, np.eye(len(sel)), 8)):
                raise Violation("%s: A*Z != Z*diag(W) or Z not orthonormal" % what)
        if jobz == "V":
            eZ.outside_unchanged(what)
        eA.outside_unchanged(what)
    if [float(v) for v in list(W)[n:]] != [3e4 + k for k in range(case["extra"])] and var not in ():
        raise Violation("%s: W changed beyond its first n entries" % what)


def fam_svd(case, rng):
    z, m, n, var = case["tc"] == "z", case["m"], case["n"], case["var"]
    A = rnd(rng, m, n, z)
    k = min(m, n)
    L = case["lay"]
    ju, jv = case["jobu"], case["jobvt"]
    if var == "gesdd":
        jv = ju
    if ju == "O" and jv == "O" and var == "gesvd":
        jv = "S"
    what = "%s(%s) m=%d n=%d jobu=%s jobvt=%s" % (var, case["tc"], m, n, ju, jv)
    eA = Emb("A", A, L[0], rng)
    S = vec(k, "d", extra=case["extra"])
    sv = np.linalg.svd(A, compute_uv=False) if k else np.zeros(0)
    kw = dict(eA.kw(), **dims(case, eA.nat, m=m, n=n))
    tc = case["tc"]
    eU = eV = None
    if var == "gesvd":
        needU = ju in "AS"
        needV = jv in "AS"
        ucols = m if ju == "A" else k
        vrows = n if jv == "A" else k
    else:
        needU = ju in "AS" or (ju == "O" and m < n)
        needV = ju in "AS" or (ju == "O" and m >= n)
        ucols = m if (ju == "A" or ju == "O") else k
        vrows = n if (ju == "A" or ju == "O") else k
    if needU:
        eU = Emb("U", np.zeros((m, ucols)) + 9e4, L[1], rng, tc=tc)
        kw["U"] = eU.M
        kw.update(eU.kw())
    if needV:
        eV = Emb("Vt", np.zeros((vrows, n)) + 9e4, L[2], rng, tc=tc)
        kw["Vt"] = eV.M
        kw.update(eV.kw())
    if var == "gesvd":
        call("gesvd", what, eA.M, S, jobu=ju, jobvt=jv, **kw)
    else:
        call("gesdd", what, eA.M, S, jobz=ju, **kw)
    s = np.array(list(S)[:k])
    if not near(s, sv, 8):
        raise Violation("%s: singular values %r, reference %r" % (what, s.tolist(), sv.tolist()))
    if [float(v) for v in list(S)[k:]] != [3e4 + i for i in range(case["extra"])]:
        raise Violation("%s: S changed beyond its first min(m,n) entries" % what)
    U = Vt = None
    if eU is not None:
        U = eU.block()
        eU.outside_unchanged(what)
    if eV is not None:
        Vt = eV.block()
        eV.outside_unchanged(what)
    if var == "gesvd":
        if ju == "O":
            U = eA.block()[:, :k]
        if jv == "O":
            Vt = eA.block()[:k, :]
    elif ju == "O":
        if m >= n:
            U = eA.block()[:, :n]
        else:
            Vt = eA.block()[:m, :]
    eA.outside_unchanged(what)
    if k == 0:
        return "empty"          # LAPACK returns immediately; contents of U / Vt are not specified
    if U is not None and not near(U.conj().T @ U, np.eye(U.shape[1]), 8):
        raise Violation("%s: U not orthonormal" % what)
    if Vt is not None and not near(Vt @ Vt.conj().T, np.eye(Vt.shape[0]), 8):
        raise Violation("%s: Vt not orthonormal" % what)
    if U is not None and Vt is not None and k:
        if not near((U[:, :k] * s) @ Vt[:k, :], A, 16):
            raise Violation("%s: U*S*Vt != A" % what)
    elif U is not None and k:
        if not near(np.abs(U[:, :k].conj().T @ A @ A.conj().T @ U[:, :k] - np.diag(s ** 2)), 0 * np.eye(k), 64):
            raise Violation("%s: U does not diagonalise A*A^H" % what)
    elif Vt is not None and k:
        if not near(np.abs(Vt[:k, :] @ A.conj().T @ A @ Vt[:k, :].conj().T - np.diag(s ** 2)), 0 * np.eye(k), 64):
            raise Violation("%s: Vt does not diagonalise A^H*A" % what)


SELECTS = {
    "none": None,
    "neg": lambda s: s.real < 0,
    "big": lambda s: abs(s) > 1.0,
    "all": lambda s: True,
    "nothing": lambda s: False,
}


def win(n, tc, off, extra):
    """output vector of n entries at offset `off` inside a longer buffer: sentinels in front and behind"""
    L = off + n + extra
    vals = [4e4 + k for k in range(off)] + [2e4 + k for k in range(n)] + [3e4 + k for k in range(extra)]
    return matrix([complex(v) for v in vals], (L, 1), "z") if tc == "z" else matrix([float(v) for v in vals], (L, 1), "d")


def win_check(v, n, off, extra, what, name):
    got = [complex(x) for x in list(v)]
    if got[:off] != [complex(4e4 + k) for k in range(off)] or got[off + n:] != [complex(3e4 + k) for k in range(extra)]:
        raise Violation("%s: %s changed outside its n entries at offset %d" % (what, name, off))
    return list(v)[off:off + n]


def fam_schur(case, rng):
    z, n, var = case["tc"] == "z", case["n"], case["var"]
    A = rnd(rng, n, n, z)
    L = case["lay"]
    selname = case["sel"]
    what = "%s(%s) n=%d select=%s w=%r V=%r" % (var, case["tc"], n, selname, case["ipiv"], case["jobz"])
    eA = Emb("A", A, L[0], rng)
    tc = case["tc"]
    wantV = case["jobz"] == "V"
    if var == "gees":
        kw = dict(eA.kw(), **dims(case, eA.nat, n=n))
        offw = (case["extra"] * 2 + 1) % 4 if (case["ipiv"] and case["extra"]) else 0     # documented keyword offsetw
        w = win(n, "z", offw, case["extra"]) if case["ipiv"] else None
        if w is not None:
            kw["w"] = w
            if offw:
                kw["offsetw"] = offw
                what += " offsetw=%d" % offw
        eV = None
        if wantV:
            eV = Emb("V", np.zeros((n, n)) + 9e4, L[1], rng, tc=tc)
            kw["V"] = eV.M
            kw.update(eV.kw())
        f = SELECTS[selname]
        if f is not None:
            kw["select"] = f
        sdim = call("gees", what, eA.M, **kw)
        S = eA.block()
        eA.outside_unchanged(what)
        # quasi upper triangular
        low = np.tril(S, -2)
        if np.any(low != 0) or (z and np.any(np.tril(S, -1) != 0)):
            raise Violation("%s: S is not (quasi) upper triangular" % what)
        ev_ref = np.linalg.eigvals(A) if n else np.zeros(0)
        evs = _quasi_eigs(S)
        if not _same_multiset(evs, ev_ref):
            raise Violation("%s: eigenvalues of S %r differ from those of A %r" % (what, evs, ev_ref.tolist()))
        if w is not None:
            wv = win_check(w, n, offw, case["extra"], what, "w")
            if not _same_multiset(wv, ev_ref):
                raise Violation("%s: w %r differs from the eigenvalues of A %r" % (what, wv, ev_ref.tolist()))
        if eV is not None:
            V = eV.block()
            eV.outside_unchanged(what)
            if not (near(V.conj().T @ V, np.eye(n), 8) and near(V @ S @ V.conj().T, A, 32)):
                raise Violation("%s: V not unitary or V*S*V^H != A" % what)
        if f is None:
            if sdim != 0:
                raise Violation("%s: returned %r without select" % (what, sdim))
        else:
            flags = [bool(f(complex(e))) or (not z and bool(f(complex(e).conjugate()))) for e in evs]
            margin = [abs(abs(complex(e)) - 1.0) < 1e-6 if selname == "big" else (abs(complex(e).real) < 1e-6 if selname == "neg" else False) for e in evs]
            if not any(margin):
                cnt = sum(flags)
                if sdim != cnt:
                    raise Violation("%s: returned sdim=%r, %d eigenvalues satisfy select (%r)" % (what, sdim, cnt, evs))
                if flags != sorted(flags, reverse=True):
                    raise Violation("%s: selected eigenvalues are not placed first: %r" % (what, list(zip(evs, flags))))
    else:
        Bm = rnd(rng, n, n, z) / 4.0 + 3 * np.eye(n)
        eB = Emb("B", Bm, L[1], rng)
        kw = dict(eA.kw(), **eB.kw())
        kw.update(dims(case, eA.nat and eB.nat, n=n))
        a = b = None
        offa = offb = 0
        if case["ipiv"]:
            if case["extra"]:
                offa, offb = case["extra"] % 3, (case["extra"] + 1) % 3 + 1          # documented keywords offseta, offsetb
            a, b = win(n, "z", offa, case["extra"]), win(n, "d", offb, case["extra"])
            kw.update(a=a, b=b)
            if case["extra"]:
                kw.update(offseta=offa, offsetb=offb)
                what += " offseta=%d offsetb=%d" % (offa, offb)
        eVl = eVr = None
        if wantV:
            eVl = Emb("Vl", np.zeros((n, n)) + 9e4, L[2], rng, tc=tc)
            eVr = Emb("Vr", np.zeros((n, n)) + 9e4, L[3], rng, tc=tc)
            kw.update(Vl=eVl.M, Vr=eVr.M)
            kw.update(eVl.kw())
            kw.update(eVr.kw())
        g = {"none": None, "neg": (lambda u, v: (u / v).real < 0 if v != 0 else False), "big": (lambda u, v: abs(u) > abs(v)),
             "all": (lambda u, v: True), "nothing": (lambda u, v: False)}[selname]
        if g is not None:
            kw["select"] = g
        sdim = call("gges", what, eA.M, eB.M, **kw)
        S, T = eA.block(), eB.block()
        eA.outside_unchanged(what)
        eB.outside_unchanged(what)
        if np.any(np.tril(S, -2) != 0) or np.any(np.tril(T, -1) != 0) or (z and np.any(np.tril(S, -1) != 0)):
            raise Violation("%s: S / T not (quasi) upper triangular" % what)
        if n:
            ref = np.linalg.eigvals(np.linalg.solve(Bm, A))
            if a is not None:
                av, bv = win_check(a, n, offa, case["extra"], what, "a"), win_check(b, n, offb, case["extra"], what, "b")
                lam = [complex(x) / y for x, y in zip(av, bv)]
                if not _same_multiset(lam, ref, tol=1e-7):
                    raise Violation("%s: a/b %r differs from the generalized eigenvalues %r" % (what, lam, ref.tolist()))
        if eVl is not None:
            Vl, Vr = eVl.block(), eVr.block()
            eVl.outside_unchanged(what)
            eVr.outside_unchanged(what)
            if not (near(Vl.conj().T @ Vl, np.eye(n), 8) and near(Vr.conj().T @ Vr, np.eye(n), 8)
                    and near(Vl @ S @ Vr.conj().T, A, 32) and near(Vl @ T @ Vr.conj().T, Bm, 32)):
                raise Violation("%s: Vl/Vr not unitary or Vl*S*Vr^H != A or Vl*T*Vr^H != B" % what)
        if g is None and sdim != 0:
            raise Violation("%s: returned %r without select" % (what, sdim))
        if selname == "all" and sdim != n:
            raise Violation("%s: select accepts everything but sdim=%r" % (what, sdim))
        if selname == "nothing" and sdim != 0:
            raise Violation("%s: select rejects everything but sdim=%r" % (what, sdim))


def _quasi_eigs(S):
    n = S.shape[0]
    out, i = [], 0
    while i < n:
        if i + 1 < n and S[i + 1, i] != 0:
            out.extend(np.linalg.eigvals(S[i:i + 2, i:i + 2]).tolist())
            i += 2
        else:
            out.append(complex(S[i, i]))
            i += 1
    return out


def _same_multiset(a, b, tol=1e-8, M=None):
    """eigenvalue lists compared through their power sums (polynomials in the matrix entries, hence well conditioned
    even for defective matrices)"""
    a, b = np.array([complex(x) for x in a]), np.array([complex(x) for x in b])
    if len(a) != len(b):
        return False
    for k in range(1, len(a) + 1):
        pa, pb = np.sum(a ** k), np.sum(b ** k)
        sc = max(1.0, float(np.sum(np.abs(b) ** k)))
        if abs(pa - pb) > 1e-9 * sc * len(a):
            return False
    return True


def fam_aux(case, rng):
    z, m, n, var = case["tc"] == "z", case["m"], case["n"], case["var"]
    L = case["lay"]
    tc = case["tc"]
    if var == "lacpy":
        uplo = case["uplo3"]
        A, B0 = rnd(rng, m, n, z), rnd(rng, m, n, z) + 50
        eA, eB = Emb("A", A, L[0], rng), Emb("B", B0, L[1], rng)
        what = "lacpy(%s) m=%d n=%d uplo=%s" % (tc, m, n, uplo)
        kw = dict(eA.kw(), **eB.kw())
        kw.update(dims(case, eA.nat and eB.nat, m=m, n=n))
        call("lacpy", what, eA.M, eB.M, uplo=uplo, **kw)
        ref = B0.copy()
        for i in range(m):
            for j in range(n):
                if uplo == "N" or (uplo == "L" and i >= j) or (uplo == "U" and i <= j):
                    ref[i, j] = A[i, j]
        if not np.array_equal(eB.block(), ref):
            raise Violation("%s: B differs from the documented copy" % what)
        eA.unchanged(what)
        eB.outside_unchanged(what)
    elif var == "larfg":
        nn = max(n, 1)
        x = rnd(rng, nn - 1, 1, z)[:, 0]
        alpha = rnd(rng, 1, 1, z)[0, 0]
        offa, offx = (0, 0) if L[0]["nat"] else (L[0]["off"], L[1]["off"])
        Ma = vec(1 + offa, tc, val=[9e4] * offa + [alpha])
        Mx = vec(nn - 1 + offx, tc, val=[9e4] * offx + list(x), extra=case["extra"])
        what = "larfg(%s) n=%d offseta=%d offsetx=%d" % (tc, nn, offa, offx)
        kw = {} if L[0]["nat"] and case["omit"] and case["extra"] == 0 else dict(n=nn, offseta=offa, offsetx=offx)
        tau = call("larfg", what, Ma, Mx, **kw)
        beta = list(Ma)[offa]
        v = np.array([1.0] + list(Mx)[offx:offx + nn - 1])
        H = np.eye(nn) - np.conj(tau) * np.outer(v, v.conj())
        y = H @ np.array([alpha] + list(x))
        tgt = np.zeros(nn, dtype=complex)
        tgt[0] = beta
        if not near(y, tgt, 8):
            raise Violation("%s: H^H*[alpha;x] = %r, expected [beta;0] with beta=%r" % (what, y.tolist(), beta))
        if abs(abs(beta) - np.linalg.norm(np.array([alpha] + list(x)))) > 1e-9 * (1 + abs(beta)):
            raise Violation("%s: |beta| != ||[alpha;x]||" % what)
        if [complex(q) for q in list(Mx)[offx + nn - 1:]] != [complex(3e4 + i) for i in range(case["extra"])] or \
                [complex(q) for q in list(Mx)[:offx]] != [complex(9e4)] * offx or [complex(q) for q in list(Ma)[:offa]] != [complex(9e4)] * offa:
            raise Violation("%s: elements outside alpha / x[offsetx:offsetx+n-1] changed" % what)
    else:   # larfx
        side = case["side"]
        C = rnd(rng, m, n, z)
        q = m if side == "L" else n
        v = rnd(rng, q, 1, z)[:, 0]
        tau = complex(0.5, -0.25) if z else 0.75
        offv = 0 if L[1]["nat"] else L[1]["off"]
        Mv = vec(q + offv, tc, val=[9e4] * offv + list(v))
        eC = Emb("C", C, L[0], rng)
        what = "larfx(%s) m=%d n=%d side=%s offsetv=%d" % (tc, m, n, side, offv)
        kw = dict(eC.kw())
        kw.update(dims(case, eC.nat and offv == 0, m=m, n=n))
        if offv:
            kw["offsetv"] = offv
        before_v = list(Mv)
        call("larfx", what, Mv, tau, eC.M, side=side, **kw)
        H = np.eye(q) - tau * np.outer(v, v.conj())
        ref = H @ C if side == "L" else C @ H
        if not near(eC.block(), ref, 8):
            raise Violation("%s: result differs from (I - tau v v^H) applied to C" % what)
        eC.outside_unchanged(what)
        if [repr(a_) for a_ in Mv] != [repr(a_) for a_ in before_v]:
            raise Violation("%s: v was modified" % what)


NEG = ["gesv_n", "getrf_m", "potrf_n", "posv_n", "sysv_n", "trtrs_n", "gels_m", "geqrf_m", "syev_n", "gesvd_m", "gees_n", "lacpy_m",
       "getrs_ldB", "gesv_ldA", "gesv_ipiv_short", "syev_W_short", "geqrf_tau_short", "gesv_tc", "potrs_tc", "gesv_ipiv_tc", "gbsv_ld",
       "heevr_Z_cols", "gesvd_U_missing", "ormqr_k", "offset_neg"]


def fam_neg(case, rng):
    """size- or type-inconsistent arguments: TypeError/ValueError and nothing modified"""
    z, n, nrhs = case["tc"] == "z", max(case["n"], 2), max(case["nrhs"], 1)
    tc, other = case["tc"], ("d" if case["tc"] == "z" else "z")
    kind = NEG[case["il"] * 8 + case["iu"]] if case["il"] * 8 + case["iu"] < len(NEG) else NEG[(case["il"] + case["iu"]) % len(NEG)]
    A, B = Emb("A", spd(rng, n, z), dict(nat=1), rng), Emb("B", rnd(rng, n, nrhs, z), dict(nat=1), rng)
    ip, W, tau = vec(n, "i"), vec(n, "d"), vec(n, tc)
    objs = {"A": A.M, "B": B.M, "ipiv": ip, "W": W, "tau": tau}
    what = "negative class %s (%s) n=%d nrhs=%d" % (kind, tc, n, nrhs)
    if kind == "gesv_n":
        f = lambda: lapack.gesv(A.M, B.M, n=n + 1)
    elif kind == "getrf_m":
        f = lambda: lapack.getrf(A.M, ip, m=n + 1)
    elif kind == "potrf_n":
        f = lambda: lapack.potrf(A.M, n=n + 1)
    elif kind == "posv_n":
        f = lambda: lapack.posv(A.M, B.M, n=n + 1)
    elif kind == "sysv_n":
        f = lambda: lapack.sysv(A.M, B.M, n=n + 1)
    elif kind == "trtrs_n":
        f = lambda: lapack.trtrs(A.M, B.M, n=n + 1)
    elif kind == "gels_m":
        f = lambda: lapack.gels(A.M, B.M, m=n + 1)
    elif kind == "geqrf_m":
        f = lambda: lapack.geqrf(A.M, tau, m=n + 1)
    elif kind == "syev_n":
        f = lambda: (lapack.heev if z else lapack.syev)(A.M, W, n=n + 1)
    elif kind == "gesvd_m":
        f = lambda: lapack.gesvd(A.M, W, m=n + 1)
    elif kind == "gees_n":
        f = lambda: lapack.gees(A.M, n=n + 1)
    elif kind == "lacpy_m":
        C = matrix(0.0, (n, n), tc)
        objs["C"] = C
        f = lambda: lapack.lacpy(A.M, C, m=n + 1)
    elif kind == "getrs_ldB":
        lapack.getrf(A.M, ip)
        A.before = list(A.M)
        f = lambda: lapack.getrs(A.M, ip, B.M, ldB=n - 1)
    elif kind == "gesv_ldA":
        f = lambda: lapack.gesv(A.M, B.M, ldA=n - 1)
    elif kind == "gesv_ipiv_short":
        ip2 = vec(n - 1, "i")
        objs["ipiv"] = ip2
        f = lambda: lapack.gesv(A.M, B.M, ipiv=ip2)
    elif kind == "syev_W_short":
        W2 = vec(n - 1, "d")
        objs["W"] = W2
        f = lambda: (lapack.heev if z else lapack.syev)(A.M, W2)
    elif kind == "geqrf_tau_short":
        t2 = vec(n - 1, tc)
        objs["tau"] = t2
        f = lambda: lapack.geqrf(A.M, t2)
    elif kind == "gesv_tc":
        B2 = matrix(1.0, (n, nrhs), other)
        objs["B"] = B2
        f = lambda: lapack.gesv(A.M, B2)
    elif kind == "potrs_tc":
        B2 = matrix(1.0, (n, nrhs), other)
        objs["B"] = B2
        f = lambda: lapack.potrs(A.M, B2)
    elif kind == "gesv_ipiv_tc":
        ip2 = matrix(1.0, (n, 1), "d")
        objs["ipiv"] = ip2
        f = lambda: lapack.gesv(A.M, B.M, ipiv=ip2)
    elif kind == "gbsv_ld":
        f = lambda: lapack.gbsv(A.M, n, B.M, ku=0)          # kl+ku+1 = n+1 rows needed, A has n
    elif kind == "heevr_Z_cols":
        Z = matrix(0.0, (n, n - 1), tc)
        objs["Z"] = Z
        f = lambda: lapack.heevr(A.M, W, jobz="V", Z=Z)
    elif kind == "gesvd_U_missing":
        f = lambda: lapack.gesvd(A.M, W, jobu="A")
    elif kind == "ormqr_k":
        lapack.geqrf(A.M, tau)
        A.before = list(A.M)
        f = lambda: (lapack.unmqr if z else lapack.ormqr)(A.M, tau, B.M, k=n + 1)
    else:
        f = lambda: lapack.gesv(A.M, B.M, offsetA=-1)
    before = {k_: [repr(v) for v in o] for k_, o in objs.items()}
    try:
        f()
    except (TypeError, ValueError):
        pass
    except Exception as e:   # noqa
        raise Violation("%s raised %s (%s) instead of TypeError/ValueError" % (what, type(e).__name__, e))
    else:
        raise Violation("%s: inconsistent arguments were accepted" % what)
    for k_, o in objs.items():
        if [repr(v) for v in o] != before[k_]:
            raise Violation("%s: refused but %s was modified" % (what, k_))
    return "refused:" + kind


FAMILIES = {
    "neg": (fam_neg, ["neg"]),
    "gesv": (fam_gesv, ["gesv", "gesv", "getrs", "getri", "getrf"]),
    "gbsv": (fam_gbsv, ["gbsv", "gbsv", "gbtrs"]),
    "gtsv": (fam_gtsv, ["gtsv", "gttrs"]),
    "posv": (fam_posv, ["posv", "potrs", "potri", "potrf"]),
    "pbsv": (fam_pbsv, ["pbsv", "pbtrs", "tbtrs"]),
    "ptsv": (fam_ptsv, ["ptsv", "pttrs"]),
    "sysv": (fam_sysv, ["sysv", "hesv", "sytrs", "hetrs", "sytri", "hetri"]),
    "trtrs": (fam_trtrs, ["trtrs", "trtri"]),
    "gels": (fam_gels, ["gels"]),
    "qr": (fam_qr, ["geqrf", "gelqf", "orgqr", "orglq", "ormqr", "ormlq", "geqp3"]),
    "eig": (fam_eig, ["syev", "heev", "syevd", "heevd", "syevx", "heevx", "syevr", "heevr", "sygv", "hegv"]),
    "svd": (fam_svd, ["gesvd", "gesdd"]),
    "schur": (fam_schur, ["gees", "gges"]),
    "aux": (fam_aux, ["lacpy", "larfg", "larfx"]),
}
REAL_ONLY = {"syev", "syevd", "syevx", "syevr", "sygv"}


@st.composite
def lay_st(draw):
    if draw(st.booleans()):
        return dict(nat=1, ldx=0, off=0, pad=0)
    return dict(nat=0, ldx=draw(st.integers(0, 2)), off=draw(st.integers(0, 3)), pad=draw(st.integers(0, 2)))


@st.composite
def case_strategy(draw, only=None):
    fam = draw(st.sampled_from(only or sorted(FAMILIES)))
    var = draw(st.sampled_from(FAMILIES[fam][1]))
    tc = "d" if var in REAL_ONLY else draw(st.sampled_from("dz"))
    dim = st.sampled_from([0, 1, 2, 3, 3, 4, 5])
    return dict(fam=fam, var=var, tc=tc, n=draw(dim), m=draw(dim), nrhs=draw(st.integers(0, 3)),
                trans=draw(st.sampled_from("NTC")), uplo=draw(st.sampled_from("LU")), diag=draw(st.sampled_from("NNU")),
                uplo3=draw(st.sampled_from("NLU")), side=draw(st.sampled_from("LR")), jobz=draw(st.sampled_from("NV")),
                range=draw(st.sampled_from("AVI")), il=draw(st.integers(0, 7)), iu=draw(st.integers(0, 7)), itype=draw(st.integers(1, 3)),
                jobu=draw(st.sampled_from("NASO")), jobvt=draw(st.sampled_from("NASO")), kl=draw(st.integers(0, 2)), ku=draw(st.integers(0, 2)),
                singular=draw(st.integers(0, 5)) == 0, ipiv=draw(st.booleans()), omit=draw(st.booleans()), extra=draw(st.integers(0, 2)),
                sel=draw(st.sampled_from(sorted(SELECTS))), lay=[draw(lay_st()) for _ in range(4)], seed=draw(st.integers(0, 2 ** 16)))


DRIVERS = {"gesv", "gbsv", "gtsv", "posv", "pbsv", "ptsv", "sysv", "hesv", "trtrs", "tbtrs"}


def oracle(case, stats=None):
    rng = np.random.RandomState(case["seed"])
    if case["nrhs"] == 0 and case["var"] in DRIVERS:
        # a driver without right-hand sides has nothing to solve; whether it still factors A is not documented
        case = dict(case, nrhs=1)
    out = FAMILIES[case["fam"]][0](case, rng)
    if stats is not None:
        big = max(case["n"], case["m"] if case["fam"] in ("qr", "svd", "gels", "aux") else 0) >= 2
        nondefault = any(not l["nat"] for l in case["lay"][:2]) or case["tc"] == "z" or case["omit"]
        labels = ["fam:" + case["fam"], "var:" + case["var"], "tc:" + case["tc"]]
        if case["singular"] and case["fam"] in ("gesv", "gbsv", "gtsv", "posv", "pbsv", "ptsv", "sysv", "trtrs"):
            labels.append("singular")
        if out:
            labels.append("outcome:" + str(out))
        stats.evaluated(case, bool((big and nondefault and not out) or case["fam"] == "neg"), labels)


def search(ctx, stats):
    n = ctx.n(250000, 6000000)
    v = run_given(case_strategy(), lambda c: oracle(c, stats), ctx.seed, n, stats, journal=ctx.journal)
    return [v] if v else []


def replay(case, part=None):
    try:
        oracle(case, None)
    except Violation as v:
        return v.msg
    return None
