"""Calling conelp / lp / socp / sdp on a materialised cone LP under a generated configuration."""
import numpy as np
from hypothesis import strategies as st
from vlib import ref_cone as rc, gen_cone as gc, ref_kkt

KKT_NAMES = ["ldl", "ldl2", "qr", "chol", "chol2"]


@st.composite
def config(draw, dims, p, backends=True, allow_options=True):
    pure_l = not dims["q"] and not dims["s"]
    entries = ["conelp", "conelp"]
    if pure_l:
        entries += ["lp", "lp"]
    if not dims["s"]:
        entries.append("socp")
    if not dims["q"]:
        entries.append("sdp")
    entry = draw(st.sampled_from(entries))
    kk = [None, None, "ldl", "ldl2", "qr", "chol", "np", "wrap_ldl"]
    if pure_l:
        kk.append("chol2")
    kkt = draw(st.sampled_from(kk))
    solver = None
    if backends:
        if entry == "lp" and draw(st.integers(0, 3)) == 0:
            solver = "glpk"
        if entry == "sdp" and p == 0 and draw(st.integers(0, 2)) == 0:
            solver = "dsdp"
    start = draw(st.sampled_from(["none", "none", "none", "primal", "dual", "both"]))
    opts = {}
    if allow_options:
        if draw(st.booleans()):
            opts["feastol"] = draw(st.sampled_from([1e-4, 1e-5, 1e-6, 1e-8, 1e-9]))
        if draw(st.booleans()):
            opts["abstol"] = draw(st.sampled_from([1e-4, 1e-6, 1e-8, 1e-9]))     # abstol <= 0: known finding conelp-relative-only-zero-optimum (C02), not generated
        if draw(st.booleans()):
            opts["reltol"] = draw(st.sampled_from([1e-4, 1e-5, 1e-7, 1e-8, 0.0, -1.0]))
        if opts.get("reltol", 1e-6) <= 0 and opts.get("abstol", 1e-7) <= 0:
            opts["reltol"] = 1e-7          # at least one of the two must be positive
        if draw(st.integers(0, 3)) == 0:
            opts["refinement"] = draw(st.integers(0, 2))
        if draw(st.integers(0, 5)) == 0:
            opts["maxiters"] = draw(st.sampled_from([3, 8, 30]))
    cfg = dict(entry=entry, kkt=kkt, solver=solver, start=start, opts=opts,
               spG=draw(st.booleans()), spA=draw(st.booleans()))
    if start != "none":
        N = rc.cdim(dims)
        cfg["start_data"] = dict(
            x=[draw(gc.dy()) for _ in range(0)],   # filled by caller-independent rule below
            su=[draw(gc.dy(-4, 4)) for _ in range(N)],
            zu=[draw(gc.dy(-4, 4)) for _ in range(N)],
            xs=draw(st.integers(-3, 3)), ys=draw(st.integers(-3, 3)),
            delta=draw(st.sampled_from([0.5, 1.0, 4.0])))
    return cfg


def effective_tols(cfg):
    o = cfg["opts"]
    return (o.get("feastol", 1e-7), o.get("abstol", 1e-7), o.get("reltol", 1e-6), o.get("maxiters", 100))


def split_blocks(v, dims, as_matrix_s=True):
    """numpy stacked vector/matrix rows -> (l part, [q parts], [s parts])."""
    l = v[:dims["l"]]
    ind = dims["l"]
    q = []
    for m in dims["q"]:
        q.append(v[ind:ind + m])
        ind += m
    s = []
    for m in dims["s"]:
        s.append(v[ind:ind + m * m])
        ind += m * m
    return l, q, s


def make_kkt(name, mat, P=None, counter=None):
    """Translate the case's kkt label into the kktsolver argument."""
    if name in (None,) + tuple(KKT_NAMES):
        return name
    dims = mat["dims"]
    if name == "np":
        return ref_kkt.make_kktsolver(mat["Gs"], mat["A"], dims, P=P, counter=counter)
    if name == "wrap_ldl":
        from cvxopt import misc
        G = gc.cvx_dense(mat["G"])
        A = gc.cvx_dense(mat["A"])
        if P is not None:
            fac = misc.kkt_ldl(G, dims, A, 0)
            Pm = gc.cvx_dense(P)
            return lambda W: fac(W, Pm)
        fac = misc.kkt_ldl(G, dims, A)
        return lambda W: fac(W)
    raise AssertionError(name)


def start_points(cfg, mat):
    """-> (primalstart, dualstart) numpy dicts or None."""
    if cfg["start"] == "none":
        return None, None
    dims = mat["dims"]
    sd = cfg["start_data"]
    n, p = mat["n"], mat["p"]
    ps = ds = None
    if cfg["start"] in ("primal", "both"):
        ps = dict(x=np.full(n, sd["xs"] / 2.0), s=gc.interior(sd["su"], sd["delta"], dims))
    if cfg["start"] in ("dual", "both"):
        ds = dict(y=np.full(p, sd["ys"] / 2.0), z=gc.interior(sd["zu"], sd["delta"], dims))
    return ps, ds


def call(cfg, mat, kkt_override="__cfg__", entry_override=None, options_override=None):
    """Runs the configured entry point.  Returns the raw result dict."""
    from cvxopt import matrix, solvers
    dims = mat["dims"]
    entry = entry_override or cfg["entry"]
    c = gc.cvx_dense(mat["c"])
    b = gc.cvx_dense(mat["b"])
    A = gc.cvx(mat["A"], cfg["spA"])
    opts = dict(cfg["opts"])
    opts["show_progress"] = False
    opts["glpk"] = {"msg_lev": "GLP_MSG_OFF"}
    if options_override is not None:
        opts = options_override
    kname = cfg["kkt"] if kkt_override == "__cfg__" else kkt_override
    kkt = make_kkt(kname, mat)
    ps, ds = start_points(cfg, mat)
    kw = {}
    if cfg.get("solver") and entry in ("lp", "sdp"):
        kw["solver"] = cfg["solver"]
    if entry == "conelp":
        G = gc.cvx(mat["G"], cfg["spG"])
        h = gc.cvx_dense(mat["h"])
        pst = None if ps is None else {"x": gc.cvx_dense(ps["x"]), "s": gc.cvx_dense(ps["s"])}
        dst = None if ds is None else {"y": gc.cvx_dense(ds["y"]), "z": gc.cvx_dense(ds["z"])}
        return solvers.conelp(c, G, h, dims, A, b, primalstart=pst, dualstart=dst, kktsolver=kkt, options=opts)
    if entry == "lp":
        G = gc.cvx(mat["G"], cfg["spG"])
        h = gc.cvx_dense(mat["h"])
        pst = None if ps is None else {"x": gc.cvx_dense(ps["x"]), "s": gc.cvx_dense(ps["s"])}
        dst = None if ds is None else {"y": gc.cvx_dense(ds["y"]), "z": gc.cvx_dense(ds["z"])}
        return solvers.lp(c, G, h, A, b, kktsolver=kkt, primalstart=pst, dualstart=dst, options=opts, **kw)
    Gl, Gq, Gs_ = split_blocks(mat["G"], dims)
    hl, hq, hs = split_blocks(mat["h"], dims)
    n = mat["n"]
    Glm = gc.cvx(np.array(Gl).reshape((dims["l"], n)), cfg["spG"])
    hlm = gc.cvx_dense(hl)
    if entry == "socp":
        Gqm = [gc.cvx(g, cfg["spG"]) for g in Gq]
        hqm = [gc.cvx_dense(x) for x in hq]
        pst = dst = None
        if ps is not None:
            sl, sq, _ = split_blocks(ps["s"], dims)
            pst = {"x": gc.cvx_dense(ps["x"]), "sl": gc.cvx_dense(sl), "sq": [gc.cvx_dense(x) for x in sq]}
        if ds is not None:
            zl, zq, _ = split_blocks(ds["z"], dims)
            dst = {"y": gc.cvx_dense(ds["y"]), "zl": gc.cvx_dense(zl), "zq": [gc.cvx_dense(x) for x in zq]}
        return solvers.socp(c, Glm, hlm, Gqm, hqm, A, b, kktsolver=kkt, primalstart=pst, dualstart=dst,
                            options=opts)
    if entry == "sdp":
        Gsm = [gc.cvx(g, cfg["spG"]) for g in Gs_]
        hsm = [gc.cvx_dense(np.array(x).reshape((m, m), order="F")) for x, m in zip(hs, dims["s"])]
        pst = dst = None
        if ps is not None:
            sl, _, ss = split_blocks(ps["s"], dims)
            pst = {"x": gc.cvx_dense(ps["x"]), "sl": gc.cvx_dense(sl),
                   "ss": [gc.cvx_dense(np.array(x).reshape((m, m), order="F")) for x, m in zip(ss, dims["s"])]}
        if ds is not None:
            zl, _, zs = split_blocks(ds["z"], dims)
            dst = {"y": gc.cvx_dense(ds["y"]), "zl": gc.cvx_dense(zl),
                   "zs": [gc.cvx_dense(np.array(x).reshape((m, m), order="F")) for x, m in zip(zs, dims["s"])]}
        return solvers.sdp(c, Glm, hlm, Gsm, hsm, A, b, kktsolver=kkt, primalstart=pst, dualstart=dst,
                           options=opts, **kw)
    raise AssertionError(entry)
