"""Generators of cone programs with planted structure (Hypothesis) and their
materialisation into numpy data.  The *case* is a JSON-able dict of primitives
(structure + small dyadic numbers); `materialize(case)` is a pure function that
turns it into (c, G, h, A, b[, P, q]) numpy arrays plus the planted truth."""
import numpy as np
from hypothesis import strategies as st
from vlib import ref_cone as rc


def dy(lo=-6, hi=6, den=2):
    return st.integers(lo, hi).map(lambda k: k / float(den))


@st.composite
def dims_strategy(draw, max_l=4, max_q=2, max_qsize=4, max_s=2, max_sorder=3, kinds="lqs", nonempty=True):
    l = draw(st.integers(0, max_l)) if "l" in kinds else 0
    q = draw(st.lists(st.integers(1, max_qsize), max_size=max_q)) if "q" in kinds else []
    s = draw(st.lists(st.integers(0, max_sorder), max_size=max_s)) if "s" in kinds else []
    if nonempty and l + sum(q) + sum(m * m for m in s) == 0:
        l = 1
    return {"l": l, "q": q, "s": s}


def packed_dim(dims):
    return dims["l"] + sum(dims["q"]) + sum(m * (m + 1) // 2 for m in dims["s"])


@st.composite
def cone_case(draw, kind=None, max_n=5, kinds="lqs", dims=None, allow_eq=True, qp=False, big=False):
    """Primitive description of a cone LP/QP."""
    if dims is None:
        dims = draw(dims_strategy(kinds=kinds, max_l=6 if big else 4, max_q=3 if big else 2,
                                  max_s=3 if big else 2, max_sorder=4 if big else 3))
    N = rc.cdim(dims)
    pk = packed_dim(dims)
    if kind is None:
        kind = draw(st.sampled_from(["feas", "feas", "feas", "pinf", "dinf", "rand"]))
    n = draw(st.integers(1, max(1, min(max_n, pk if not qp else max_n))))
    pmax = min(n, 2) if allow_eq else 0
    if kind == "dinf":
        pmax = min(pmax, n - 1)
    p = draw(st.integers(0, pmax))
    if not qp and n > pk + p:          # structural rank condition cdim_pckd + p >= n
        n = max(1, pk + p)
        p = min(p, n)
        if kind == "dinf":
            p = min(p, n - 1)
    G = [[draw(dy()) for _ in range(n)] for _ in range(N)]
    A = [[draw(dy()) for _ in range(n)] for _ in range(p)]
    case = dict(kind=kind, dims=dims, n=n, p=p, G=G, A=A,
                x0=[draw(dy()) for _ in range(n)],
                y0=[draw(dy()) for _ in range(p)],
                su=[draw(dy(-4, 4)) for _ in range(N)],
                zu=[draw(dy(-4, 4)) for _ in range(N)],
                sdelta=draw(st.sampled_from([0.25, 0.5, 1.0, 2.0])),
                zdelta=draw(st.sampled_from([0.25, 0.5, 1.0, 2.0])),
                junk=draw(st.sampled_from([0.0, 0.0, 7.5, -33.0, 1e3])))
    if kind == "feas" and not qp and p >= 1 and draw(st.integers(0, 4)) == 0:
        # homogeneous cone constraints (h = 0) with a non-zero equality right-hand side, e.g. standard-form LPs:
        # here 'dual infeasible' would have to be told from 'optimal' by the size of A*x alone
        case["homog"] = draw(st.sampled_from([1.0, 1.0, 4.0, 16.0]))
    if kind == "feas" and not qp and "homog" not in case and draw(st.integers(0, 3)) == 0:
        # centred feasibility problems: c = 0, the cone identity e is orthogonal to the range of G (symmetric boxes,
        # norm balls, trace-free LMIs) and h = G x0 + alpha*e.  Here the least-norm dual start is z = 0, so whatever
        # the solver adds to it decides on its own whether the start is inside the cone
        case["centered"] = draw(st.sampled_from([1.0, 2.0, 4.0]))
    if kind in ("pinf", "dinf", "rand"):
        case["x1"] = [draw(dy()) for _ in range(n)]
        case["c0"] = [draw(dy()) for _ in range(n)]
        case["h0"] = [draw(dy()) for _ in range(N)]
        case["s1u"] = [draw(dy(-4, 4)) for _ in range(N)]
        case["b0"] = [draw(dy()) for _ in range(p)]
    if qp:
        r = draw(st.integers(0, n))
        case["B"] = [[draw(dy(-4, 4)) for _ in range(r)] for _ in range(n)]
        case["x1"] = [draw(dy()) for _ in range(n)]
    return case


def interior(u, delta, dims):
    """Strictly interior point built from arbitrary u: margin >= delta in every block."""
    u = np.array(u, dtype=float)
    out = u.copy()
    for kind, ind, m in rc.blocks(dims):
        if kind == "l":
            out[ind:ind + m] = np.abs(u[ind:ind + m]) + delta
        elif kind == "q":
            out[ind] = float(np.sum(np.abs(u[ind + 1:ind + m]))) + delta
        elif m:
            B = np.tril(u[ind:ind + m * m].reshape((m, m), order="F"))
            S = B @ B.T + delta * np.eye(m)
            out[ind:ind + m * m] = S.reshape(-1, order="F")
    return out


def add_junk(V, dims, junk):
    """Overwrite the strictly upper triangles of the 's' blocks (unreferenced storage) with junk."""
    if not junk:
        return V
    V = np.array(V, dtype=float).copy()
    for kind, ind, m in rc.blocks(dims):
        if kind == "s":
            for j in range(m):
                for i in range(j):
                    if V.ndim == 1:
                        V[ind + i + j * m] = junk + i - 2 * j
                    else:
                        V[ind + i + j * m, :] = junk + i - 2 * j + np.arange(V.shape[1])
    return V


def materialize(case):
    """-> dict(c,G,h,A,b (numpy; G,h with junk), Gs,hs (symmetrised clean versions), truth…)."""
    dims = case["dims"]
    n, p = case["n"], case["p"]
    N = rc.cdim(dims)
    G = np.array(case["G"], dtype=float).reshape((N, n))
    A = np.array(case["A"], dtype=float).reshape((p, n))
    Gs = rc.symcols(G, dims) if N else G
    kind = case["kind"]
    x0 = np.array(case["x0"], dtype=float)
    y0 = np.array(case["y0"], dtype=float)
    s0 = interior(case["su"], case["sdelta"], dims)
    z0 = interior(case["zu"], case["zdelta"], dims)
    out = dict(dims=dims, n=n, p=p, kind=kind)
    if kind == "feas":
        if case.get("homog") and float(x0 @ x0) > 0 and "B" not in case:
            x0 = x0 * case["homog"]
            s0 = s0 * case["homog"]
            Gs = Gs - np.outer(Gs @ x0 + s0, x0) / float(x0 @ x0)      # now Gs x0 = -s0, i.e. h = 0
            out["homog"] = True
        if case.get("centered") and "B" not in case and N:
            e = interior(np.zeros(N), 1.0, dims)
            Gs = Gs - np.outer(e, Gs.T @ e) / float(e @ e)           # now Gs'e = 0 (columns stay symmetric)
            s0 = case["centered"] * e
            z0 = e
            y0 = np.zeros(p)
            out["centered"] = True
        h = Gs @ x0 + s0
        if out.get("homog"):
            h = np.zeros_like(h)
        b = A @ x0
        c = -(Gs.T @ z0) - A.T @ y0
        out.update(x0=x0, s0=s0, z0=z0, y0=y0)
    elif kind == "rand":
        h = rc.symvec(np.array(case["h0"], dtype=float), dims)
        b = np.array(case["b0"], dtype=float)
        c = np.array(case["c0"], dtype=float)
    elif kind == "pinf":
        # certificate (z0, y0): G'z0 + A'y0 = 0, h'z0 + b'y0 = -1
        zz = float(z0 @ z0)
        Gs = Gs - np.outer(z0, Gs.T @ z0 + A.T @ y0) / zz
        x1 = np.array(case["x1"], dtype=float)
        s1 = interior(case["s1u"], 0.5, dims)
        h = Gs @ x1 + s1
        b = A @ x1
        h = h - z0 * (float(h @ z0 + b @ y0) + 1.0) / zz
        # dual feasible by construction (so the only legitimate verdict is 'primal infeasible')
        z1 = interior(case["h0"], 0.5, dims)
        y1 = np.array(case["b0"], dtype=float)
        c = -(Gs.T @ z1) - A.T @ y1
        out.update(z0=z0, y0=y0, zfeas=z1, yfeas=y1)
    elif kind == "dinf":
        xx = float(x0 @ x0)
        if xx == 0:
            x0 = x0.copy()
            x0[0] = 1.0
            xx = 1.0
        Gs = Gs - np.outer(Gs @ x0 + s0, x0) / xx
        A = A - np.outer(A @ x0, x0) / xx
        c0 = np.array(case["c0"], dtype=float)
        c = c0 - x0 * (float(c0 @ x0) + 1.0) / xx
        x1 = np.array(case["x1"], dtype=float)
        s1 = interior(case["s1u"], 0.5, dims)
        h = Gs @ x1 + s1
        b = A @ x1
        out.update(x0=x0, s0=s0, xfeas=x1, sfeas=s1)
    else:
        raise AssertionError(kind)
    out.update(c=c, Gs=Gs, hs=h, A=A, b=b,
               G=add_junk(Gs, dims, case["junk"]), h=add_junk(h, dims, case["junk"]))
    # rank / conditioning facts
    out["rankA"] = int(np.linalg.matrix_rank(A)) if p else 0
    M = np.vstack([Gs, A]) if N + p else np.zeros((0, n))
    sv = np.linalg.svd(M, compute_uv=False) if M.size else np.zeros(0)
    out["sv_GA"] = sv
    out["rank_ok"] = bool((p == 0 or (np.linalg.svd(A, compute_uv=False)[-1] >= 1e-3 * max(1.0, np.linalg.svd(A, compute_uv=False)[0])
                                      and p <= n))
                          and len(sv) >= n and sv[n - 1] >= 1e-3 * max(1.0, sv[0]))
    out["cond_GA"] = float(sv[0] / sv[n - 1]) if len(sv) >= n and sv[n - 1] > 0 else float("inf")
    if "B" in case:
        B = np.array(case["B"], dtype=float).reshape((n, -1))
        P = B @ B.T
        out["P"] = P
        out["rankP"] = int(np.linalg.matrix_rank(P)) if P.size else 0
    return out


# ------------------------------------------------------------ cvxopt objects

def cvx_dense(a):
    from cvxopt import matrix
    a = np.array(a, dtype=float)
    if a.ndim == 1:
        return matrix(a.tolist(), (len(a), 1), "d")
    return matrix(a.reshape(-1, order="F").tolist(), a.shape, "d")


def cvx_sparse(a):
    from cvxopt import sparse
    return sparse(cvx_dense(a))


def cvx(a, sp=False):
    return cvx_sparse(a) if sp else cvx_dense(a)
