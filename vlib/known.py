"""Predicates of known findings shared by several checks (by construction, never by symptom alone)."""
import numpy as np
from vlib import ref_cone as rc


def chol2_limit_singular(mat, qp, x, s, z, kkt_in_use):
    """Known finding `chol2-limit-singular`.

    kkt_chol2 (the default for problems with only an 'l' block) decides in its FIRST factorization whether
    S = P + G'W^-2 G is singular and adds A'A only then.  When S is nonsingular at the start but becomes singular
    in the limit (at the optimum fewer than n - rank(P-part) inequalities are active and the equality constraints
    supply the missing rank), the normal equations lose definiteness as W degenerates, potrf fails and the solver
    stops with 'unknown' ("singular KKT matrix") although the problem is well posed.

    Predicate: chol2 is the KKT solver in use, p >= 1, pure 'l' cone, and P + G_act' G_act is rank deficient, where
    G_act are the rows active at the reference optimum (s_i < z_i).
    """
    dims = mat["dims"]
    if dims["q"] or dims["s"] or mat["p"] < 1:
        return False
    if kkt_in_use not in (None, "chol2"):
        return False
    if x is None or s is None or z is None:
        return False
    act = np.asarray(s) < np.asarray(z)
    Gact = mat["Gs"][act, :]
    S = Gact.T @ Gact
    if qp:
        S = S + mat["P"]
    n = mat["n"]
    sv = np.linalg.svd(S, compute_uv=False)
    return bool(len(sv) < n or sv[-1] <= 1e-8 * max(1.0, sv[0]))


def coneqp_gap_cycling(sol, maxiters=100):
    """Known finding 'coneqp-gap-cycling': on some well-posed QPs coneqp's iteration (sigma from the affine step,
    eta = 0, no safeguard) enters a cycle: the iterates are feasible to working accuracy while the gap oscillates, until
    the iteration limit.  Identified by: status 'unknown' with iterations == maxiters and reported primal and dual
    infeasibility <= 1e-8."""
    try:
        return (sol["status"] == "unknown" and sol.get("iterations") == maxiters
                and float(sol["primal infeasibility"]) <= 1e-8 and float(sol["dual infeasibility"]) <= 1e-8)
    except (KeyError, TypeError, ValueError):
        return False
