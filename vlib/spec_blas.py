"""Specification table of cvxopt.blas, transcribed from the docstrings in src/C/blas.c and doc/source/blas.rst.

For one call description (a JSON-able dict, see `c17.case_strategy`) the model gives

  * the effective values of omitted / negative arguments (documented default formulas),
  * for every matrix argument the structural footprint (exact flat indices read / written, Python ints),
    the documented array extent ("need") and the documented ld / inc / offset rules,
  * a legality class   ACCEPT (all documented rules hold -> the call must be carried out),
                       REJECT (must raise TypeError/ValueError),
                       OPEN   (a documented rule is violated but no data would be addressed; either outcome),
  * reference semantics on numpy arrays written from the mathematical definition (no BLAS).

Nothing in here imports cvxopt.
"""
import numpy as np

ACCEPT, REJECT, OPEN = "accept", "reject", "open"


class Bad(Exception):
    """documented inconsistency of default values -> the wrapper must refuse (soft: nothing would be addressed, either outcome)"""

    def __init__(self, msg, soft=False):
        Exception.__init__(self, msg)
        self.soft = soft


# ------------------------------------------------------------------ operand views

class Vec:
    kind = "vec"

    def __init__(self, name, n, inc, off, mode, positive_inc=False):
        self.name, self.n, self.inc, self.off, self.mode = name, n, inc, off, mode
        self.positive_inc = positive_inc

    def flat(self, i):
        a = abs(self.inc)
        return self.off + (i * a if self.inc > 0 else (self.n - 1 - i) * a)

    def footprint(self):
        return [self.flat(i) for i in range(self.n)] if self.n > 0 else []

    def need(self):
        return self.off + 1 + (self.n - 1) * abs(self.inc) if self.n > 0 else 0

    def span(self):
        """(lowest, highest) flat index addressed, None if empty"""
        if self.n <= 0:
            return None
        return (self.off, self.off + (self.n - 1) * abs(self.inc))

    def rules(self):
        r = []
        if self.inc == 0 or (self.positive_inc and self.inc < 0):
            r.append("inc")
        if self.off < 0:
            r.append("off")
        return r

    def get(self, buf):
        return np.array([buf[k] for k in self.footprint()], dtype=buf.dtype)

    def put(self, buf, val):
        for i, k in enumerate(self.footprint()):
            buf[k] = val[i]


class Mat:
    """rows x cols matrix stored with leading dimension ld at offset off.
    struct: 'full' | 'sym' | 'herm' | 'tri' (uplo, diag) | 'gb' (kl,ku) | 'sb'/'hb'/'tb' (uplo,k[,diag])"""
    kind = "mat"

    def __init__(self, name, rows, cols, ld, off, mode, struct="full", uplo=None, diag="N", kl=0, ku=0, k=0, ldmin=None):
        self.name, self.rows, self.cols, self.ld, self.off, self.mode = name, rows, cols, ld, off, mode
        self.struct, self.uplo, self.diag, self.kl, self.ku, self.k = struct, uplo, diag, kl, ku, k
        self.ldmin = ldmin

    def empty(self):
        return self.rows <= 0 or self.cols <= 0

    def block_rows(self):
        if self.struct == "gb":
            return self.kl + self.ku + 1
        if self.struct in ("sb", "hb", "tb"):
            return self.k + 1
        return self.rows

    def ld_min(self):
        if self.ldmin is not None:
            return self.ldmin
        if self.struct in ("gb", "sb", "hb", "tb"):
            return self.block_rows()
        return max(1, self.rows)

    def need(self):
        return 0 if self.empty() else self.off + (self.cols - 1) * self.ld + self.block_rows()

    def rules(self):
        r = []
        if self.ld < self.ld_min():
            r.append("ld")
        if self.off < 0:
            r.append("off")
        return r

    def entries(self):
        """structural entries: list of ((i, j), flat)"""
        out = []
        if self.empty():
            return out
        s = self.struct
        for j in range(self.cols):
            if s == "gb":
                irange = range(max(0, j - self.ku), min(self.rows, j + self.kl + 1))
            elif s in ("sb", "hb", "tb"):
                irange = range(j, min(self.rows, j + self.k + 1)) if self.uplo == "L" else range(max(0, j - self.k), min(self.rows, j + 1))
            else:
                irange = range(self.rows)
            for i in irange:
                if s == "full":
                    ok, r = True, i
                elif s in ("sym", "herm", "tri"):
                    ok = (i >= j) if self.uplo == "L" else (i <= j)
                    if s == "tri" and self.diag == "U" and i == j:
                        ok = False
                    r = i
                elif s == "gb":
                    ok = True
                    r = self.ku + i - j
                else:  # sb, hb, tb
                    ok = True
                    r = (i - j) if self.uplo == "L" else (self.k + i - j)
                    if s == "tb" and self.diag == "U" and i == j:
                        ok = False
                if ok:
                    out.append(((i, j), self.off + r + j * self.ld))
        return out

    def footprint(self):
        return [f for _, f in self.entries()]

    def span(self):
        """(lowest, a lower bound of the highest) flat index of the structural footprint, None if empty;
        exact for small matrices"""
        if self.empty():
            return None
        if self.rows * self.cols <= 4096 and self.ld >= 0:
            fp = self.footprint()
            return (min(fp), max(fp)) if fp else None
        return (self.off, self.off + (self.cols - 1) * self.ld)

    def get(self, buf):
        """logical dense matrix (symmetric/Hermitian completion, unit diagonal, zeros outside band/triangle)"""
        A = np.zeros((max(self.rows, 0), max(self.cols, 0)), dtype=buf.dtype)
        s = self.struct
        for (i, j), f in self.entries():
            v = buf[f]
            if s in ("herm", "hb") and i == j:
                v = v.real          # imaginary part of the diagonal is assumed zero
            A[i, j] = v
            if s in ("sym", "sb") and i != j:
                A[j, i] = v
            if s in ("herm", "hb") and i != j:
                A[j, i] = np.conj(v)
        if s in ("tri", "tb") and self.diag == "U":
            for i in range(min(self.rows, self.cols)):
                A[i, i] = 1
        return A

    def put(self, buf, val):
        for (i, j), f in self.entries():
            buf[f] = val[i, j]


# ------------------------------------------------------------------ helpers for defaults

def vec_default_n(P, name, inc, off):
    L = P["len"][name]
    a = abs(inc)
    if a == 0:
        raise Bad("zero increment")
    return 1 + (L - off - 1) // a if L >= off + 1 else 0


def op(A, t):
    return A if t == "N" else (A.T if t == "T" else A.conj().T)


class Call:
    """effective arguments of one call"""

    def __init__(self, case):
        self.case = case
        self.f = case["f"]
        self.tc = case["tc"]
        self.size = {k: tuple(v) for k, v in case["size"].items()}
        self.len = {k: v[0] * v[1] for k, v in self.size.items()}
        self.kw = dict(case["kw"])            # explicit integer / flag keyword arguments actually passed
        self.P = {"len": self.len}

    def g(self, name, default):
        """value of an optional integer argument: negative or absent -> default (dims); for ld, 0 -> default"""
        v = self.kw.get(name)
        if v is None:
            return default() if callable(default) else default
        if name.startswith("ld"):
            return (default() if callable(default) else default) if v == 0 else v
        if name.startswith(("inc", "offset")):
            return v
        return (default() if callable(default) else default) if v < 0 else v

    def flag(self, name, default):
        return self.kw.get(name, default)


# ------------------------------------------------------------------ the routines
# each builder returns (operands, semantics) where semantics(vals, alpha, beta) -> (outputs dict, return value)

def _l1_two(c, defaults_must_agree):
    ix, iy = c.g("incx", 1), c.g("incy", 1)
    ox, oy = c.g("offsetx", 0), c.g("offsety", 0)
    n = c.kw.get("n")
    if n is None or n < 0:
        if ox < 0 or oy < 0:
            raise Bad("negative offset")
        n = vec_default_n(c.P, "x", ix, ox)
        if defaults_must_agree:
            if iy == 0:
                raise Bad("zero increment")
            if n != vec_default_n(c.P, "y", iy, oy):
                raise Bad("unequal default lengths")
    return n, ix, iy, ox, oy


def b_swap(c):
    n, ix, iy, ox, oy = _l1_two(c, True)
    ops = [Vec("x", n, ix, ox, "rw"), Vec("y", n, iy, oy, "rw")]
    return ops, lambda v, a, b: ({"x": v["y"], "y": v["x"]}, None)


def b_copy(c):
    n, ix, iy, ox, oy = _l1_two(c, False)
    ops = [Vec("x", n, ix, ox, "r"), Vec("y", n, iy, oy, "w")]
    return ops, lambda v, a, b: ({"y": v["x"]}, None)


def b_axpy(c):
    n, ix, iy, ox, oy = _l1_two(c, False)
    ops = [Vec("x", n, ix, ox, "r"), Vec("y", n, iy, oy, "rw")]
    return ops, lambda v, a, b: ({"y": a * v["x"] + v["y"]}, None)


def b_dot(c):
    n, ix, iy, ox, oy = _l1_two(c, True)
    ops = [Vec("x", n, ix, ox, "r"), Vec("y", n, iy, oy, "r")]
    return ops, lambda v, a, b: ({}, np.sum(np.conj(v["x"]) * v["y"]) if n > 0 else 0.0)


def b_dotu(c):
    n, ix, iy, ox, oy = _l1_two(c, True)
    ops = [Vec("x", n, ix, ox, "r"), Vec("y", n, iy, oy, "r")]
    return ops, lambda v, a, b: ({}, np.sum(v["x"] * v["y"]) if n > 0 else 0.0)


def _l1_one(c):
    ix, ox = c.g("inc", 1), c.g("offset", 0)
    n = c.kw.get("n")
    if n is None or n < 0:
        if ix <= 0:
            raise Bad("nonpositive increment")
        if ox < 0:
            raise Bad("negative offset")
        n = vec_default_n(c.P, "x", ix, ox)
    return n, ix, ox


def b_scal(c):
    n, ix, ox = _l1_one(c)
    return [Vec("x", n, ix, ox, "rw", positive_inc=True)], lambda v, a, b: ({"x": a * v["x"]}, None)


def b_nrm2(c):
    n, ix, ox = _l1_one(c)
    return [Vec("x", n, ix, ox, "r", positive_inc=True)], lambda v, a, b: ({}, float(np.sqrt(np.sum(np.abs(v["x"]) ** 2))) if n > 0 else 0.0)


def b_asum(c):
    n, ix, ox = _l1_one(c)
    return [Vec("x", n, ix, ox, "r", positive_inc=True)], \
        lambda v, a, b: ({}, float(np.sum(np.abs(v["x"].real)) + np.sum(np.abs(v["x"].imag))) if n > 0 else 0.0)


def b_iamax(c):
    n, ix, ox = _l1_one(c)

    def sem(v, a, b):
        if n <= 0:
            return {}, 0
        w = np.abs(v["x"].real) + np.abs(v["x"].imag)
        return {}, int(np.argmax(w))          # first maximizer
    return [Vec("x", n, ix, ox, "r", positive_inc=True)], sem


def _sq_default(c, name="A"):
    if c.size[name][0] != c.size[name][1]:
        raise Bad("default n requires a square matrix")
    return c.size[name][0]


def b_gemv(c):
    t = c.flag("trans", "N")
    m, n = c.g("m", c.size["A"][0]), c.g("n", c.size["A"][1])
    ld = c.g("ldA", max(1, c.size["A"][0]))
    lx, ly = (n, m) if t == "N" else (m, n)
    ops = [Mat("A", m, n, ld, c.g("offsetA", 0), "r"),
           Vec("x", lx, c.g("incx", 1), c.g("offsetx", 0), "r"), Vec("y", ly, c.g("incy", 1), c.g("offsety", 0), "rw")]
    return ops, lambda v, a, b: ({"y": a * (op(v["A"], t) @ v["x"]) + b * v["y"]}, None)


def b_gbmv(c):
    t = c.flag("trans", "N")
    m, kl = c.kw["m"], c.kw["kl"]
    n = c.g("n", c.size["A"][1])
    ku = c.g("ku", c.size["A"][0] - 1 - kl)
    ld = c.g("ldA", max(1, c.size["A"][0]))
    if m < 0 or kl < 0 or ku < 0:
        raise Bad("negative dimension", soft=(m == 0 or n == 0))
    lx, ly = (n, m) if t == "N" else (m, n)
    ops = [Mat("A", m, n, ld, c.g("offsetA", 0), "r", struct="gb", kl=kl, ku=ku),
           Vec("x", lx, c.g("incx", 1), c.g("offsetx", 0), "r"), Vec("y", ly, c.g("incy", 1), c.g("offsety", 0), "rw")]
    return ops, lambda v, a, b: ({"y": a * (op(v["A"], t) @ v["x"]) + b * v["y"]}, None)


def _symv(struct):
    def build(c):
        n = c.g("n", lambda: _sq_default(c))
        ld = c.g("ldA", max(1, c.size["A"][0]))
        ops = [Mat("A", n, n, ld, c.g("offsetA", 0), "r", struct=struct, uplo=c.flag("uplo", "L")),
               Vec("x", n, c.g("incx", 1), c.g("offsetx", 0), "r"), Vec("y", n, c.g("incy", 1), c.g("offsety", 0), "rw")]
        return ops, lambda v, a, b: ({"y": a * (v["A"] @ v["x"]) + b * v["y"]}, None)
    return build


def _sbmv(struct):
    def build(c):
        n = c.g("n", c.size["A"][1])
        k = c.g("k", max(0, c.size["A"][0] - 1))
        ld = c.g("ldA", c.size["A"][0])
        ops = [Mat("A", n, n, ld, c.g("offsetA", 0), "r", struct=struct, uplo=c.flag("uplo", "L"), k=k),
               Vec("x", n, c.g("incx", 1), c.g("offsetx", 0), "r"), Vec("y", n, c.g("incy", 1), c.g("offsety", 0), "rw")]
        return ops, lambda v, a, b: ({"y": a * (v["A"] @ v["x"]) + b * v["y"]}, None)
    return build


def _trv(band, solve):
    def build(c):
        t = c.flag("trans", "N")
        if band:
            n = c.g("n", c.size["A"][1])
            k = c.g("k", max(0, c.size["A"][0] - 1))
            ld = c.g("ldA", c.size["A"][0])
            A = Mat("A", n, n, ld, c.g("offsetA", 0), "r", struct="tb", uplo=c.flag("uplo", "L"), diag=c.flag("diag", "N"), k=k)
        else:
            n = c.g("n", lambda: _sq_default(c))
            ld = c.g("ldA", max(1, c.size["A"][0]))
            A = Mat("A", n, n, ld, c.g("offsetA", 0), "r", struct="tri", uplo=c.flag("uplo", "L"), diag=c.flag("diag", "N"))
        ops = [A, Vec("x", n, c.g("incx", 1), c.g("offsetx", 0), "rw")]
        if solve:
            return ops, lambda v, a, b: ({"x": np.linalg.solve(op(v["A"], t), v["x"]) if n > 0 else v["x"]}, None)
        return ops, lambda v, a, b: ({"x": op(v["A"], t) @ v["x"]}, None)
    return build


def _ger(conj):
    def build(c):
        m, n = c.g("m", c.size["A"][0]), c.g("n", c.size["A"][1])
        ld = c.g("ldA", max(1, c.size["A"][0]))
        ops = [Vec("x", m, c.g("incx", 1), c.g("offsetx", 0), "r"), Vec("y", n, c.g("incy", 1), c.g("offsety", 0), "r"),
               Mat("A", m, n, ld, c.g("offsetA", 0), "rw")]
        return ops, lambda v, a, b: ({"A": v["A"] + a * np.outer(v["x"], np.conj(v["y"]) if conj else v["y"])}, None)
    return build


def _syr(herm, two):
    def build(c):
        n = c.g("n", lambda: _sq_default(c))
        ld = c.g("ldA", max(1, c.size["A"][0]))
        ops = [Vec("x", n, c.g("incx", 1), c.g("offsetx", 0), "r")]
        if two:
            ops.append(Vec("y", n, c.g("incy", 1), c.g("offsety", 0), "r"))
        ops.append(Mat("A", n, n, ld, c.g("offsetA", 0), "rw", struct="herm" if herm else "sym", uplo=c.flag("uplo", "L")))

        def sem(v, a, b):
            x = v["x"]
            cj = np.conj if herm else (lambda z: z)
            if two:
                y = v["y"]
                R = v["A"] + a * np.outer(x, cj(y)) + cj(a) * np.outer(y, cj(x))
            else:
                R = v["A"] + a * np.outer(x, cj(x))
            if herm:
                R = R.copy()
                for i in range(n):
                    R[i, i] = R[i, i].real
            return {"A": R}, None
        return ops, sem
    return build


def b_gemm(c):
    tA, tB = c.flag("transA", "N"), c.flag("transB", "N")
    sA, sB = c.size["A"], c.size["B"]
    m = c.g("m", sA[0] if tA == "N" else sA[1])
    n = c.g("n", sB[1] if tB == "N" else sB[0])
    k = c.kw.get("k")
    if k is None or k < 0:
        k = sA[1] if tA == "N" else sA[0]
        if k != (sB[0] if tB == "N" else sB[1]):
            raise Bad("default k inconsistent")
    ldA, ldB, ldC = c.g("ldA", max(1, sA[0])), c.g("ldB", max(1, sB[0])), c.g("ldC", max(1, c.size["C"][0]))
    ra, ca = (m, k) if tA == "N" else (k, m)
    rb, cb = (k, n) if tB == "N" else (n, k)
    ops = [Mat("A", ra, ca, ldA, c.g("offsetA", 0), "r"), Mat("B", rb, cb, ldB, c.g("offsetB", 0), "r"),
           Mat("C", m, n, ldC, c.g("offsetC", 0), "rw")]
    return ops, lambda v, a, b: ({"C": a * (op(v["A"], tA) @ op(v["B"], tB)) + b * v["C"]}, None)


def _symm(struct):
    def build(c):
        side = c.flag("side", "L")
        sA, sB = c.size["A"], c.size["B"]
        m = c.kw.get("m")
        if m is None or m < 0:
            m = sB[0]
            if side == "L" and (m != sA[0] or m != sA[1]):
                raise Bad("default m inconsistent with A")
        n = c.kw.get("n")
        if n is None or n < 0:
            n = sB[1]
            if side == "R" and (n != sA[0] or n != sA[1]):
                raise Bad("default n inconsistent with A")
        ldA, ldB, ldC = c.g("ldA", max(1, sA[0])), c.g("ldB", max(1, sB[0])), c.g("ldC", max(1, c.size["C"][0]))
        na = m if side == "L" else n
        ops = [Mat("A", na, na, ldA, c.g("offsetA", 0), "r", struct=struct, uplo=c.flag("uplo", "L")),
               Mat("B", m, n, ldB, c.g("offsetB", 0), "r"), Mat("C", m, n, ldC, c.g("offsetC", 0), "rw")]
        if side == "L":
            return ops, lambda v, a, b: ({"C": a * (v["A"] @ v["B"]) + b * v["C"]}, None)
        return ops, lambda v, a, b: ({"C": a * (v["B"] @ v["A"]) + b * v["C"]}, None)
    return build


def _syrk(herm, two):
    def build(c):
        t = c.flag("trans", "N")
        sA = c.size["A"]
        n = c.kw.get("n")
        if n is None or n < 0:
            n = sA[0] if t == "N" else sA[1]
            if two and n != (c.size["B"][0] if t == "N" else c.size["B"][1]):
                raise Bad("default n inconsistent with B")
        k = c.kw.get("k")
        if k is None or k < 0:
            k = sA[1] if t == "N" else sA[0]
            if two and k != (c.size["B"][1] if t == "N" else c.size["B"][0]):
                raise Bad("default k inconsistent with B", soft=(n == 0))
        ldA, ldC = c.g("ldA", max(1, sA[0])), c.g("ldC", max(1, c.size["C"][0]))
        ra, ca = (n, k) if t == "N" else (k, n)
        ops = [Mat("A", ra, ca, ldA, c.g("offsetA", 0), "r")]
        if two:
            ops.append(Mat("B", ra, ca, c.g("ldB", max(1, c.size["B"][0])), c.g("offsetB", 0), "r"))
        ops.append(Mat("C", n, n, ldC, c.g("offsetC", 0), "rw", struct="herm" if herm else "sym", uplo=c.flag("uplo", "L")))
        tt = ("C" if herm else "T")

        def sem(v, a, b):
            A = v["A"] if t == "N" else op(v["A"], tt)           # n x k
            cj = np.conj if herm else (lambda z: z)
            if two:
                B = v["B"] if t == "N" else op(v["B"], tt)
                R = a * (A @ cj(B).T) + cj(a) * (B @ cj(A).T) + b * v["C"]
            else:
                R = a * (A @ cj(A).T) + b * v["C"]
            if herm:
                R = R.copy()
                for i in range(n):
                    R[i, i] = R[i, i].real
            return {"C": R}, None
        return ops, sem
    return build


def _trm(solve):
    def build(c):
        side, t = c.flag("side", "L"), c.flag("transA", "N")
        sA, sB = c.size["A"], c.size["B"]
        n = c.kw.get("n")
        if n is None or n < 0:
            n = sB[1] if side == "L" else sA[0]
            if side != "L" and n != sA[1]:
                raise Bad("default n requires square A")
        m = c.kw.get("m")
        if m is None or m < 0:
            m = sA[0] if side == "L" else sB[0]
            if side == "L" and m != sA[1]:
                raise Bad("default m requires square A")
        ldA, ldB = c.g("ldA", max(1, sA[0])), c.g("ldB", max(1, sB[0]))
        na = m if side == "L" else n
        ops = [Mat("A", na, na, ldA, c.g("offsetA", 0), "r", struct="tri", uplo=c.flag("uplo", "L"), diag=c.flag("diag", "N")),
               Mat("B", m, n, ldB, c.g("offsetB", 0), "rw")]

        def sem(v, a, b):
            T = op(v["A"], t)
            if solve:
                if m == 0 or n == 0:
                    return {"B": v["B"]}, None
                R = np.linalg.solve(T, a * v["B"]) if side == "L" else np.linalg.solve(T.T, (a * v["B"]).T).T
            else:
                R = a * (T @ v["B"]) if side == "L" else a * (v["B"] @ T)
            return {"B": R}, None
        return ops, sem
    return build


# name -> dict(build, args (positional names), kwargs order, typecodes, flags {name: (real choices, complex choices)},
#               alpha/beta: None | 'num' | 'real', solve (needs well conditioned triangular A))
def _r(build, pos, kws, tcs="dz", flags=None, alpha=None, beta=None, solve=False, intpos=()):
    return dict(build=build, pos=pos, kws=kws, tcs=tcs, flags=flags or {}, alpha=alpha, beta=beta, solve=solve, intpos=intpos)


NTC = ("NTC", "NTC")
LU = ("LU", "LU")
NU = ("NU", "NU")
LR = ("LR", "LR")
L1_2 = ["n", "incx", "incy", "offsetx", "offsety"]
L1_1 = ["n", "inc", "offset"]

ROUTINES = {
    "swap": _r(b_swap, ["x", "y"], L1_2),
    "scal": _r(b_scal, ["alpha", "x"], L1_1, alpha="num"),
    "copy": _r(b_copy, ["x", "y"], L1_2),
    "axpy": _r(b_axpy, ["x", "y"], ["alpha"] + L1_2, alpha="num"),
    "dot": _r(b_dot, ["x", "y"], L1_2),
    "dotu": _r(b_dotu, ["x", "y"], L1_2),
    "nrm2": _r(b_nrm2, ["x"], L1_1),
    "asum": _r(b_asum, ["x"], L1_1),
    "iamax": _r(b_iamax, ["x"], L1_1),
    "gemv": _r(b_gemv, ["A", "x", "y"], ["trans", "alpha", "beta", "m", "n", "ldA", "incx", "incy", "offsetA", "offsetx", "offsety"],
               flags={"trans": NTC}, alpha="num", beta="num"),
    "gbmv": _r(b_gbmv, ["A", "m", "kl", "x", "y"], ["trans", "alpha", "beta", "n", "ku", "ldA", "incx", "incy", "offsetA", "offsetx", "offsety"],
               flags={"trans": NTC}, alpha="num", beta="num", intpos=("m", "kl")),
    "symv": _r(_symv("sym"), ["A", "x", "y"], ["uplo", "alpha", "beta", "n", "ldA", "incx", "incy", "offsetA", "offsetx", "offsety"],
               tcs="d", flags={"uplo": LU}, alpha="real", beta="real"),
    "hemv": _r(_symv("herm"), ["A", "x", "y"], ["uplo", "alpha", "beta", "n", "ldA", "incx", "incy", "offsetA", "offsetx", "offsety"],
               flags={"uplo": LU}, alpha="num", beta="num"),
    "sbmv": _r(_sbmv("sb"), ["A", "x", "y"], ["uplo", "alpha", "beta", "n", "k", "ldA", "incx", "incy", "offsetA", "offsetx", "offsety"],
               tcs="d", flags={"uplo": LU}, alpha="real", beta="real"),
    "hbmv": _r(_sbmv("hb"), ["A", "x", "y"], ["uplo", "alpha", "beta", "n", "k", "ldA", "incx", "incy", "offsetA", "offsetx", "offsety"],
               flags={"uplo": LU}, alpha="num", beta="num"),
    "trmv": _r(_trv(False, False), ["A", "x"], ["uplo", "trans", "diag", "n", "ldA", "incx", "offsetA", "offsetx"],
               flags={"uplo": LU, "trans": NTC, "diag": NU}),
    "tbmv": _r(_trv(True, False), ["A", "x"], ["uplo", "trans", "diag", "n", "k", "ldA", "incx", "offsetA", "offsetx"],
               flags={"uplo": LU, "trans": NTC, "diag": NU}),
    "trsv": _r(_trv(False, True), ["A", "x"], ["uplo", "trans", "diag", "n", "ldA", "incx", "offsetA", "offsetx"],
               flags={"uplo": LU, "trans": NTC, "diag": NU}, solve=True),
    "tbsv": _r(_trv(True, True), ["A", "x"], ["uplo", "trans", "diag", "n", "k", "ldA", "incx", "offsetA", "offsetx"],
               flags={"uplo": LU, "trans": NTC, "diag": NU}, solve=True),
    "ger": _r(_ger(True), ["x", "y", "A"], ["alpha", "m", "n", "incx", "incy", "ldA", "offsetx", "offsety", "offsetA"], alpha="num"),
    "geru": _r(_ger(False), ["x", "y", "A"], ["m", "n", "alpha", "incx", "incy", "ldA", "offsetx", "offsety", "offsetA"], alpha="num"),
    "syr": _r(_syr(False, False), ["x", "A"], ["uplo", "alpha", "n", "incx", "ldA", "offsetx", "offsetA"], tcs="d",
              flags={"uplo": LU}, alpha="real"),
    "her": _r(_syr(True, False), ["x", "A"], ["uplo", "alpha", "n", "incx", "ldA", "offsetx", "offsetA"],
              flags={"uplo": LU}, alpha="real"),
    "syr2": _r(_syr(False, True), ["x", "y", "A"], ["uplo", "alpha", "n", "incx", "incy", "ldA", "offsetx", "offsety", "offsetA"], tcs="d",
               flags={"uplo": LU}, alpha="real"),
    "her2": _r(_syr(True, True), ["x", "y", "A"], ["uplo", "alpha", "n", "incx", "incy", "ldA", "offsetx", "offsety", "offsetA"],
               flags={"uplo": LU}, alpha="num"),
    "gemm": _r(b_gemm, ["A", "B", "C"], ["transA", "transB", "alpha", "beta", "m", "n", "k", "ldA", "ldB", "ldC", "offsetA", "offsetB", "offsetC"],
               flags={"transA": NTC, "transB": NTC}, alpha="num", beta="num"),
    "symm": _r(_symm("sym"), ["A", "B", "C"], ["side", "uplo", "alpha", "beta", "m", "n", "ldA", "ldB", "ldC", "offsetA", "offsetB", "offsetC"],
               flags={"side": LR, "uplo": LU}, alpha="num", beta="num"),
    "hemm": _r(_symm("herm"), ["A", "B", "C"], ["side", "uplo", "alpha", "beta", "m", "n", "ldA", "ldB", "ldC", "offsetA", "offsetB", "offsetC"],
               flags={"side": LR, "uplo": LU}, alpha="num", beta="num"),
    "syrk": _r(_syrk(False, False), ["A", "C"], ["uplo", "trans", "alpha", "beta", "n", "k", "ldA", "ldC", "offsetA", "offsetC"],
               flags={"uplo": LU, "trans": ("NTC", "NT")}, alpha="num", beta="num"),
    "herk": _r(_syrk(True, False), ["A", "C"], ["uplo", "trans", "alpha", "beta", "n", "k", "ldA", "ldC", "offsetA", "offsetC"],
               flags={"uplo": LU, "trans": ("NTC", "NC")}, alpha="real", beta="real"),
    "syr2k": _r(_syrk(False, True), ["A", "B", "C"], ["uplo", "trans", "alpha", "beta", "n", "k", "ldA", "ldB", "ldC", "offsetA", "offsetB", "offsetC"],
                flags={"uplo": LU, "trans": ("NTC", "NT")}, alpha="num", beta="num"),
    "her2k": _r(_syrk(True, True), ["A", "B", "C"], ["uplo", "trans", "alpha", "beta", "n", "k", "ldA", "ldB", "ldC", "offsetA", "offsetB", "offsetC"],
                flags={"uplo": LU, "trans": ("NTC", "NC")}, alpha="num", beta="real"),
    "trmm": _r(_trm(False), ["A", "B"], ["side", "uplo", "transA", "diag", "alpha", "m", "n", "ldA", "ldB", "offsetA", "offsetB"],
               flags={"side": LR, "uplo": LU, "transA": NTC, "diag": NU}, alpha="num"),
    "trsm": _r(_trm(True), ["A", "B"], ["side", "uplo", "transA", "diag", "alpha", "m", "n", "ldA", "ldB", "offsetA", "offsetB"],
               flags={"side": LR, "uplo": LU, "transA": NTC, "diag": NU}, alpha="num", solve=True),
}


def resolve(case):
    """-> (class, reason, operands, semantics).  operands/semantics are None when the defaults are inconsistent."""
    R = ROUTINES[case["f"]]
    c = Call(case)
    tc = case["tc"]
    if len(set(case["tcs"].values())) == 1:
        tc = c.tc = list(case["tcs"].values())[0]
    # type rules
    for name, t in case["tcs"].items():
        if t != tc:
            return REJECT, "typecode of %s conflicts" % name, None, None
    rules = []
    if tc not in R["tcs"]:
        rules.append(("tc", "type"))                  # e.g. complex matrices passed to symv
    for fl, (rc, zc) in R["flags"].items():
        v = case["kw"].get(fl)
        if v is not None and v not in (rc if tc == "d" else zc):
            rules.append((fl, "type"))
            c.kw[fl] = rc[0]                          # only used to size the operands
    try:
        ops, sem = R["build"](c)
    except Bad as e:
        return (OPEN if e.soft else REJECT), str(e), None, None
    # dimension arguments that are negative after resolution can only come from defaults that are negative (ku)
    for sc in ("alpha", "beta"):
        v = case.get(sc)
        if v is not None and isinstance(v, list) and (tc == "d" or R[sc] == "real"):
            rules.append((sc, "type"))            # complex scalar for real data
    for o in ops:
        for r in o.rules():
            rules.append((o.name, r))
        if o.need() > c.len[o.name]:
            rules.append((o.name, "len"))
    if not rules:
        return ACCEPT, "", ops, sem
    outs = [o for o in ops if "w" in o.mode]
    work = any(o.span() for o in outs) if outs else all(o.span() for o in ops)
    unsafe = False
    if work:
        for o in ops:
            sp = o.span()
            if sp is None:
                continue
            if sp[0] < 0 or sp[1] >= c.len[o.name]:
                unsafe = True
            if (o.name, "off") in rules or (o.name, "inc") in rules or (o.name, "ld") in rules:
                unsafe = True
        if any(r[1] == "type" for r in rules):
            unsafe = True
    return (REJECT if unsafe else OPEN), "rules violated: %r" % rules, ops, sem


INT_MAX = 2 ** 31 - 1


def int_overflow(case, ops):
    """True if one of the extents the wrapper has to compute in C int arithmetic exceeds 2^31-1 (or an argument is
    INT_MIN, whose absolute value is not representable): the known finding 'blas-int-overflow'"""
    for v in case["kw"].values():
        if isinstance(v, int) and not isinstance(v, bool) and v == -2 ** 31:
            return True
    for o in ops or []:
        if o.kind == "vec":
            ext = abs(o.off) + 1 + abs(o.n - 1) * abs(o.inc)
        else:
            ext = abs(o.off) + abs(o.cols - 1) * abs(o.ld) + abs(o.block_rows()) + max(abs(o.rows), abs(o.cols))
        if ext > INT_MAX:
            return True
    return False
