"""Build cvxopt from $VERIF_REPO's *working tree* into a private overlay package.

/venv contains the PyPI wheel of cvxopt, not a build of /repo, so every check
builds its own overlay:

    <overlay>/cvxopt/*.py                      copy of $VERIF_REPO/src/python/*.py
    <overlay>/cvxopt/{base,blas,lapack,misc_solvers}.so   compiled from $VERIF_REPO/src/C
    <overlay>/cvxopt/{cholmod,umfpack,amd,glpk,dsdp,gsl,fftw}.so   copied from the wheel
    <overlay>/cvxopt.libs -> wheel's cvxopt.libs

Variants: plain (-O2), asan (-O1 -g -fsanitize=address), guard (malloc family
replaced by a canary/guard-page allocator, see vlib/guard).
"""
import os, sys, shutil, subprocess, sysconfig, tempfile, atexit, signal, glob

VERIF = os.path.dirname(os.path.dirname(os.path.abspath(__file__)))
REPO = os.environ.get("VERIF_REPO", "/repo")
WHEEL = "/venv/lib/python3.12/site-packages/cvxopt"
WHEEL_LIBS = "/venv/lib/python3.12/site-packages/cvxopt.libs"
PY = "/venv/bin/python"
SUFFIX = ".cpython-312-x86_64-linux-gnu.so"
PREBUILT = ["cholmod", "umfpack", "amd", "glpk", "dsdp", "gsl", "fftw"]

EXT = {
    "base": (["base.c", "dense.c", "sparse.c"], ["-llapack", "-lblas", "-lm"]),
    "blas": (["blas.c"], ["-lblas"]),
    "lapack": (["lapack.c"], ["-llapack", "-lblas"]),
    "misc_solvers": (["misc_solvers.c"], ["-llapack", "-lblas", "-lm"]),
}

_scratch_dirs = []


def _cleanup():
    if os.environ.get("VERIF_KEEP_SCRATCH"):        # debugging aid: leave overlays and worker logs in place
        return
    for d in _scratch_dirs:
        shutil.rmtree(d, ignore_errors=True)


def scratch_root():
    root = os.environ.get("VERIF_SCRATCH") or os.path.join(VERIF, ".build")
    os.makedirs(root, exist_ok=True)
    return root


def new_scratch(prefix):
    d = tempfile.mkdtemp(prefix=prefix + "-", dir=scratch_root())
    if not _scratch_dirs:
        atexit.register(_cleanup)

        def _sig(signum, frame):
            _cleanup()
            os._exit(2)
        for s in (signal.SIGTERM, signal.SIGINT, signal.SIGHUP):
            try:
                signal.signal(s, _sig)
            except Exception:
                pass
    _scratch_dirs.append(d)
    return d


class BuildError(Exception):
    pass


def asan_runtime():
    return subprocess.check_output(["gcc", "-print-file-name=libasan.so"], text=True).strip()


def build(variant="plain", repo=None, dest=None):
    """Build the overlay; returns its path (to be put first on PYTHONPATH)."""
    repo = repo or REPO
    dest = dest or new_scratch("ov-" + variant)
    pkg = os.path.join(dest, "cvxopt")
    os.makedirs(pkg, exist_ok=True)
    srcpy = os.path.join(repo, "src", "python")
    for f in glob.glob(os.path.join(srcpy, "*.py")):
        shutil.copy(f, pkg)
    if not os.path.exists(os.path.join(pkg, "_version.py")):
        with open(os.path.join(pkg, "_version.py"), "w") as fh:
            fh.write("__version__ = version = '0+verif'\n__version_tuple__ = version_tuple = (0,)\n")
    for m in PREBUILT:
        shutil.copy(os.path.join(WHEEL, m + SUFFIX), pkg)
    link = os.path.join(dest, "cvxopt.libs")
    if not os.path.lexists(link):
        os.symlink(WHEEL_LIBS, link)
    inc = sysconfig.get_paths()["include"] if sys.executable.startswith("/venv") else \
        subprocess.check_output([PY, "-c", "import sysconfig;print(sysconfig.get_paths()['include'])"], text=True).strip()
    csrc = os.path.join(repo, "src", "C")
    if variant == "plain":
        cflags = ["-O2"]
        ldflags = []
    elif variant == "asan":
        cflags = ["-O1", "-g", "-fsanitize=address", "-fno-omit-frame-pointer"]
        ldflags = ["-fsanitize=address"]
    elif variant == "guard":
        gdir = os.path.join(VERIF, "vlib", "guard")
        so = os.path.join(dest, "libvgalloc.so")
        r = subprocess.run(["gcc", "-O2", "-fPIC", "-shared", "-o", so, os.path.join(gdir, "vgalloc.c")],
                           capture_output=True, text=True)
        if r.returncode:
            raise BuildError("vgalloc: " + r.stderr)
        cflags = ["-O2", "-include", os.path.join(gdir, "guard_alloc.h")]
        ldflags = ["-L" + dest, "-lvgalloc", "-Wl,-rpath," + dest]
    else:
        raise BuildError("unknown variant " + variant)
    procs = []
    for name, (srcs, libs) in EXT.items():
        out = os.path.join(pkg, name + SUFFIX)
        cmd = ["gcc", "-fPIC", "-shared", "-w", "-fno-strict-overflow", "-DNDEBUG", "-I" + inc, "-I" + csrc] + cflags + \
              [os.path.join(csrc, s) for s in srcs] + ["-o", out] + ldflags + libs
        procs.append((name, cmd, subprocess.Popen(cmd, stdout=subprocess.PIPE, stderr=subprocess.STDOUT, text=True)))
    for name, cmd, p in procs:
        o, _ = p.communicate()
        if p.returncode:
            raise BuildError("compile of %s failed:\n%s\n%s" % (name, " ".join(cmd), o[-4000:]))
    return dest


def env_for(overlay, variant="plain", extra=None):
    e = dict(os.environ)
    e["PYTHONPATH"] = os.pathsep.join([overlay, os.path.join(VERIF, ".deps"), VERIF])
    e["PYTHONHASHSEED"] = "0"
    e.setdefault("OPENBLAS_NUM_THREADS", "1")
    e.setdefault("OMP_NUM_THREADS", "1")
    e["PYTHONDONTWRITEBYTECODE"] = "1"
    e["VERIF_OVERLAY"] = overlay
    if variant == "asan":
        e["LD_PRELOAD"] = asan_runtime()
        e["ASAN_OPTIONS"] = "detect_leaks=0:abort_on_error=1:allocator_may_return_null=1:handle_segv=0:detect_odr_violation=0"
    if extra:
        e.update(extra)
    return e


def ensure_deps():
    """Install third-party deps into /verif/.deps if they are missing (offline)."""
    deps = os.path.join(VERIF, ".deps")
    if os.path.isdir(os.path.join(deps, "numpy")) and os.path.isdir(os.path.join(deps, "scipy")) \
            and os.path.isdir(os.path.join(deps, "jsonschema")):
        return
    subprocess.check_call([PY, "-m", "pip", "install", "-q", "--no-index", "--find-links",
                           "/opt/veriftools/wheels", "--target", deps, "--upgrade",
                           "numpy", "scipy", "atheris", "jsonschema", "hypothesis"])


if __name__ == "__main__":
    v = sys.argv[1] if len(sys.argv) > 1 else "plain"
    d = build(v, dest=sys.argv[2] if len(sys.argv) > 2 else None)
    print(d)
    if len(sys.argv) > 2:
        _scratch_dirs.clear()
