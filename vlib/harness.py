"""Worker-side helpers shared by all checks: statistics, Hypothesis driver with
bounded shrinking, violation capture, known-finding exclusion."""
import os, sys, json, time, hashlib, traceback

VERIF = os.path.dirname(os.path.dirname(os.path.abspath(__file__)))


class Violation(Exception):
    """Raised by an oracle when the property is violated on a case."""
    def __init__(self, msg, detail=None):
        Exception.__init__(self, msg)
        self.msg = msg
        self.detail = detail


def canon(obj):
    return json.dumps(obj, sort_keys=True, default=_default)


def _default(o):
    try:
        import numpy as np
        if isinstance(o, np.generic):
            return o.item()
        if isinstance(o, np.ndarray):
            return o.tolist()
    except Exception:
        pass
    if isinstance(o, complex):
        return {"re": o.real, "im": o.imag}
    if isinstance(o, (set, frozenset)):
        return sorted(o)
    if isinstance(o, bytes):
        return o.hex()
    return repr(o)


def chash(obj):
    return hashlib.sha1(canon(obj).encode()).hexdigest()[:16]


class Stats:
    """Counters merged across workers by the runner."""
    def __init__(self, max_samples=6):
        self.evaluations = 0
        self.nontrivial = set()
        self.samples = []
        self.hist = {}
        self.excluded_known = {}
        self.max_samples = max_samples
        self.budget_exhausted = False
        self.extra = {}

    def event(self, label, n=1):
        self.hist[label] = self.hist.get(label, 0) + n

    def evaluated(self, case, nontrivial, labels=()):
        self.evaluations += 1
        for l in labels:
            self.event(l)
        if nontrivial:
            h = chash(case)
            if h not in self.nontrivial:
                self.nontrivial.add(h)
                if len(self.samples) < self.max_samples and (len(self.nontrivial) % 7 == 1):
                    self.samples.append(json.loads(canon(case)))

    def exclude(self, slug):
        self.excluded_known[slug] = self.excluded_known.get(slug, 0) + 1

    def dump(self):
        return {"evaluations": self.evaluations, "nontrivial": sorted(self.nontrivial),
                "samples": self.samples, "hist": self.hist, "excluded_known": self.excluded_known,
                "budget_exhausted": self.budget_exhausted, "extra": self.extra}


def hyp_settings(max_examples, stateful_step_count=None, phases=None):
    from hypothesis import settings, HealthCheck, Phase
    kw = dict(max_examples=max_examples, deadline=None, database=None, derandomize=False,
              report_multiple_bugs=False, print_blob=False,
              suppress_health_check=list(HealthCheck))
    if stateful_step_count:
        kw["stateful_step_count"] = stateful_step_count
    if phases is not None:
        kw["phases"] = phases
    else:
        kw["phases"] = [Phase.generate, Phase.shrink]
    return settings(**kw)


class ShrinkGuard:
    """Bounds the time Hypothesis spends shrinking: after `budget` seconds past
    the first failure every other candidate is answered 'passes' so the
    shrinker converges at once, and the best failing case seen is kept."""
    def __init__(self, budget=60.0):
        self.budget = budget
        self.first_fail_t = None
        self.best = None       # (size, case, msg, detail)

    def expired(self):
        return self.first_fail_t is not None and time.time() - self.first_fail_t > self.budget

    def record(self, case, msg, detail=None):
        if self.first_fail_t is None:
            self.first_fail_t = time.time()
        size = len(canon(case))
        if self.best is None or size <= self.best[0]:
            self.best = (size, json.loads(canon(case)), msg, detail)


class CaseTimeout(BaseException):
    """Raised by the watchdog inside a case that runs far longer than any legitimate case."""


CASE_TIMEOUT = float(os.environ.get("VERIF_CASE_TIMEOUT", "120"))


def with_watchdog(fn, case, seconds=None):
    """Runs fn(case) under an interval timer (CPU seconds of this process); a non-terminating loop in the code under
    test is interrupted with CaseTimeout (normal cases take milliseconds; the limit is 2-3 orders of magnitude above)."""
    import signal
    seconds = seconds or CASE_TIMEOUT

    def handler(signum, frame):
        raise CaseTimeout()
    # the limit is on the CPU time of this process (ITIMER_PROF), not on the wall clock: a loop that does not terminate
    # burns CPU, whereas a busy machine (other checks running next to this one) only stretches the wall clock
    old = signal.signal(signal.SIGPROF, handler)
    signal.setitimer(signal.ITIMER_PROF, seconds)
    try:
        return fn(case)
    finally:
        signal.setitimer(signal.ITIMER_PROF, 0)
        signal.signal(signal.SIGPROF, old)


def run_given(strategy, oracle, seed, max_examples, stats, shrink_budget=60.0, time_budget=None,
              on_timeout="skip", journal=None):
    """Drive `oracle(case)` (raises Violation on failure) with Hypothesis.

    Returns None if no violation, else dict(case=…, msg=…).  `case` objects must
    be JSON-able.  Other exceptions from the oracle propagate as harness errors.
    """
    import hypothesis
    from hypothesis import given
    guard = ShrinkGuard(shrink_budget)
    t0 = time.time()

    @hypothesis.seed(seed)
    @hyp_settings(max_examples)
    @given(strategy)
    def test(case):
        if guard.expired():
            if guard.best is not None and canon(case) == canon(guard.best[1]):
                raise Violation(guard.best[2])
            return
        if time_budget is not None and guard.first_fail_t is None and time.time() - t0 > time_budget:
            stats.budget_exhausted = True
            return
        if journal is not None:
            journal(case)          # if the interpreter dies inside this case the runner reports it
        try:
            with_watchdog(oracle, case)
        except CaseTimeout:
            stats.event("case_timeout")
            stats.extra["case_timeouts"] = stats.extra.get("case_timeouts", 0) + 1
            if on_timeout == "violation":
                msg = "the call did not return within %.0f s (ordinary cases take milliseconds): non-termination" % CASE_TIMEOUT
                guard.record(case, msg, None)
                raise Violation(msg)
            return
        except Violation as v:
            guard.record(case, v.msg, v.detail)
            raise

    try:
        test()
    except Violation:
        pass
    except hypothesis.errors.Flaky:
        if guard.best is None:
            raise
    except BaseException as e:
        # hypothesis may wrap; if a violation was recorded, prefer it
        if guard.best is None:
            raise
        if not isinstance(e, Exception):
            raise
    if guard.best is not None:
        return {"case": guard.best[1], "msg": guard.best[2], "detail": guard.best[3]}
    return None


def run_machine(machine_cls, seed, max_examples, step_count, guard):
    """Run a RuleBasedStateMachine class.  The machine is expected to record its
    history in `self.history` (a JSON-able list) and to call
    `guard.record(history, msg)` before raising Violation."""
    import hypothesis
    from hypothesis.stateful import run_state_machine_as_test
    try:
        run_state_machine_as_test(hypothesis.seed(seed)(machine_cls),
                                  settings=hyp_settings(max_examples, stateful_step_count=step_count))
    except Violation:
        pass
    except hypothesis.errors.Flaky:
        if guard.best is None:
            raise
    except BaseException as e:
        if guard.best is None or not isinstance(e, Exception):
            raise
    if guard.best is not None:
        return {"case": guard.best[1], "msg": guard.best[2], "detail": guard.best[3]}
    return None


def load_known(prop):
    p = os.path.join(VERIF, "known_findings.json")
    if not os.path.exists(p):
        return []
    with open(p) as fh:
        return [k for k in json.load(fh) if k.get("property") == prop]


# ------------------------------------------------------------------ coverage-guided engine (atheris / libFuzzer)

def instrument_for_fuzz(modules):
    """Imports the named pure-Python cvxopt modules under atheris' bytecode instrumentation.  Must run before
    anything else imports them (vlib.worker calls it first thing for parts whose name starts with 'fuzz')."""
    import importlib
    import atheris
    with atheris.instrument_imports(include=list(modules)):
        for m in modules:
            importlib.import_module(m)


def run_fuzz(strategy, oracle, seed, evaluations, stats, journal=None, max_len=4096, max_calls_factor=6):
    """Coverage-guided search: libFuzzer (through atheris) mutates the byte string that Hypothesis' `fuzz_one_input`
    decodes into a case of `strategy`, guided by the branch coverage of the instrumented cvxopt modules; every decoded
    case goes through the same `oracle` as the random search.  Runs in a forked child because `atheris.Fuzz()` never
    returns; the child stops after `evaluations` oracle executions (or `max_calls_factor` times as many byte strings),
    or at the first violation.  Returns None or dict(case, msg, detail) like run_given.  A run is pinned by `seed`
    (libFuzzer -seed, empty corpus plus byte strings drawn from random.Random(seed)) as far as libFuzzer allows."""
    import tempfile, shutil, random, pickle
    work = tempfile.mkdtemp(prefix="fuzz-", dir=os.environ.get("VERIF_FUZZ_TMP") or os.path.dirname(os.environ.get("VERIF_OVERLAY", "/var/tmp/x")))
    resf = os.path.join(work, "result.pkl")
    corpus = os.path.join(work, "corpus")
    os.makedirs(corpus)
    rnd = random.Random(seed)
    for i in range(8):
        with open(os.path.join(corpus, "seed%d" % i), "wb") as fh:
            fh.write(bytes(rnd.getrandbits(8) for _ in range(rnd.choice([64, 256, 1024]))))
    sys.stdout.flush()
    pid = os.fork()
    if pid == 0:
        code = 0
        try:
            import atheris
            import hypothesis
            from hypothesis import given
            calls = [0]
            ev0 = stats.evaluations

            def finish(v):
                stats.extra["fuzz_byte_strings"] = stats.extra.get("fuzz_byte_strings", 0) + calls[0]
                stats.extra["fuzz_corpus_files"] = stats.extra.get("fuzz_corpus_files", 0) + len(os.listdir(corpus))
                with open(resf + ".tmp", "wb") as fh:
                    pickle.dump(dict(stats=stats.dump(), violation=v), fh)
                os.replace(resf + ".tmp", resf)
                sys.stdout.flush()
                os._exit(0)

            @hyp_settings(1)
            @given(strategy)
            def test(case):
                if journal is not None:
                    journal(case)
                try:
                    with_watchdog(oracle, case)
                except CaseTimeout:
                    stats.event("case_timeout")
                except Violation as v:
                    finish(dict(case=json.loads(canon(case)), msg=v.msg, detail=v.detail))

            fuzz_one = test.hypothesis.fuzz_one_input

            def one(data):
                calls[0] += 1
                fuzz_one(data)
                if stats.evaluations - ev0 >= evaluations or calls[0] >= max_calls_factor * evaluations:
                    if calls[0] >= max_calls_factor * evaluations and stats.evaluations - ev0 < evaluations:
                        stats.budget_exhausted = True
                    finish(None)

            atheris.Setup([sys.argv[0], "-seed=%d" % (seed % (2 ** 31 - 1) + 1), "-max_len=%d" % max_len,
                           "-len_control=0", "-runs=-1", "-timeout=86400", "-rss_limit_mb=0", "-print_final_stats=0",
                           "-verbosity=0", "-artifact_prefix=" + work + "/", corpus], one)
            atheris.Fuzz()
            code = 4
        except SystemExit:
            raise
        except BaseException:
            import traceback
            traceback.print_exc()
            code = 5
        os._exit(code)
    _, status = os.waitpid(pid, 0)
    try:
        if os.WIFSIGNALED(status):
            # died inside a journaled case: die the same way so that the runner attributes it
            sys.stdout.flush()
            os._exit(139 if os.WTERMSIG(status) == 11 else 134)
        if not os.path.exists(resf):
            raise RuntimeError("fuzz child ended with status %r without a result" % (status,))
        with open(resf, "rb") as fh:
            res = pickle.load(fh)
    finally:
        shutil.rmtree(work, ignore_errors=True)
    d = res["stats"]
    stats.evaluations = d["evaluations"]
    stats.nontrivial = set(d["nontrivial"])
    stats.samples = d["samples"]
    stats.hist = d["hist"]
    stats.excluded_known = d["excluded_known"]
    stats.budget_exhausted = d["budget_exhausted"]
    stats.extra = d["extra"]
    return res["violation"]
