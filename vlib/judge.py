"""Certificate oracles for cone LP / QP results, recomputed in numpy from the
caller's data (vlib.ref_cone); never uses cvxopt.misc / blas."""
import math
import numpy as np
from vlib import ref_cone as rc

ROUND = 1e-9
NOTES = []
TINY = 1e-12

FIELDS = ["status", "x", "y", "gap", "relative gap", "primal objective", "dual objective",
          "primal infeasibility", "dual infeasibility", "primal slack", "dual slack",
          "residual as primal infeasibility certificate", "residual as dual infeasibility certificate"]


def close(a, b, scale):
    return abs(a - b) <= ROUND * scale + TINY


def nrm(v):
    return float(np.linalg.norm(v)) if v is not None and np.size(v) else 0.0


def isnum(v):
    return isinstance(v, (int, float)) and not isinstance(v, bool) and math.isfinite(v)


class Data:
    """Caller's problem data (numpy) with the unreferenced triangles ignored."""
    def __init__(self, c, G, h, A, b, dims, P=None, q=None):
        self.dims = dims
        self.c = np.array(c, dtype=float)
        n = len(self.c)
        self.n = n
        N = rc.cdim(dims)
        self.N = N
        self.G = rc.symcols(np.array(G, dtype=float).reshape((N, n)), dims)
        self.h = rc.symvec(np.array(h, dtype=float), dims)
        self.A = np.array(A, dtype=float).reshape((-1, n))
        self.b = np.array(b, dtype=float)
        self.p = len(self.b)
        self.nG = float(np.linalg.norm(self.G)) if N else 0.0
        self.nA = float(np.linalg.norm(self.A)) if self.p else 0.0
        self.resx0 = max(1.0, nrm(self.c if q is None else q))
        self.resy0 = max(1.0, nrm(self.b))
        self.resz0 = max(1.0, nrm(self.h))
        self.P = None
        if P is not None:
            P = np.array(P, dtype=float).reshape((n, n))
            self.P = np.tril(P) + np.tril(P, -1).T
            self.q = np.array(q, dtype=float)
            self.nP = float(np.linalg.norm(self.P))


def vec_of(m):
    return rc.vec(m)


def unpack_solution(sol, dims, entry):
    """-> dict x,y,s,z (numpy 1-D or None) from a conelp/lp/socp/sdp/coneqp/qp result; also shape messages."""
    msgs = []
    out = {}
    out["x"] = vec_of(sol.get("x"))
    out["y"] = vec_of(sol.get("y"))
    if entry in ("conelp", "lp", "coneqp", "qp"):
        for k in ("s", "z"):
            out[k] = vec_of(sol.get(k))
        return out, msgs
    if "s" in sol or "z" in sol:
        msgs.append("wrapper result contains an 's' or 'z' key")
    blk = "sq" if entry == "socp" else "ss"
    for pre in ("s", "z"):
        l = sol.get(pre + "l")
        bl = sol.get(pre + blk[1])
        if l is None and bl is None:
            out[pre] = None
            continue
        if l is None or bl is None:
            msgs.append("%sl / %s inconsistent None" % (pre, pre + blk[1]))
            out[pre] = None
            continue
        if l.size != (dims["l"], 1):
            msgs.append("%sl has size %r, expected (%d,1)" % (pre, l.size, dims["l"]))
        parts = [vec_of(l)]
        sizes = dims["q"] if entry == "socp" else dims["s"]
        if len(bl) != len(sizes):
            msgs.append("%s has %d blocks, expected %d" % (pre + blk[1], len(bl), len(sizes)))
        for k, M in enumerate(bl):
            want = (sizes[k], 1) if entry == "socp" else (sizes[k], sizes[k])
            if k < len(sizes) and M.size != want:
                msgs.append("%s[%d] has size %r, expected %r" % (pre + blk[1], k, M.size, want))
            parts.append(vec_of(M))
        out[pre] = np.concatenate(parts) if parts else np.zeros(0)
    return out, msgs


def recompute_lp(D, x, s, y, z):
    """All accuracy quantities of the cone LP at (x,s,y,z), from the definitions."""
    dims = D.dims
    r = {}
    ss = rc.symvec(s, dims)
    zs = rc.symvec(z, dims)
    rz = D.G @ x + ss - D.h
    ry = D.A @ x - D.b
    rx = D.G.T @ zs + D.A.T @ y + D.c
    r["pres"] = max(nrm(ry) / D.resy0, nrm(rz) / D.resz0)
    r["dres"] = nrm(rx) / D.resx0
    r["pres_scale"] = (D.nG * nrm(x) + nrm(ss) + nrm(D.h)) / D.resz0 + (D.nA * nrm(x) + nrm(D.b)) / D.resy0
    r["dres_scale"] = (D.nG * nrm(zs) + D.nA * nrm(y) + nrm(D.c)) / D.resx0
    r["gap"] = float(ss @ zs)
    r["gap_scale"] = nrm(ss) * nrm(zs)
    r["pcost"] = float(D.c @ x)
    r["pcost_scale"] = nrm(D.c) * nrm(x)
    r["dcost"] = -float(D.h @ zs) - float(D.b @ y)
    r["dcost_scale"] = nrm(D.h) * nrm(zs) + nrm(D.b) * nrm(y)
    r["pslack"] = rc.min_slack(s, dims)
    r["dslack"] = rc.min_slack(z, dims)
    r["ns"], r["nz"] = nrm(ss), nrm(zs)
    return r


def sym_exact(v, dims, name, msgs):
    for kind, ind, m in rc.blocks(dims):
        if kind == "s" and m:
            M = v[ind:ind + m * m].reshape((m, m), order="F")
            if not np.array_equal(M, M.T):
                # not part of the property (only lower triangles are meaningful storage): recorded, not judged
                NOTES.append("nonsymmetric_" + name)
                return


def relgap_ok(rel, gap, tgap, pc, tp, dc, td):
    """Is `rel` a value the documented rule can produce?  rule: gap/-pc if pc < 0, else gap/dc if dc > 0,
    else None -- where pc, dc, gap are only known up to the rounding tolerances tp, td, tgap."""
    def inside(den, tden):
        lo_den, hi_den = max(den - tden, 0.0), den + tden
        if hi_den <= 0:
            return False
        lo = (gap - tgap) / hi_den if gap - tgap >= 0 else (gap - tgap) / max(lo_den, 1e-300)
        hi = (gap + tgap) / lo_den if lo_den > 0 else float("inf")
        if gap + tgap < 0:
            hi = (gap + tgap) / hi_den
        return lo - 1e-9 * abs(lo) <= rel <= hi + 1e-9 * abs(hi)
    if pc < tp and rel is not None and inside(-pc, tp):
        return True
    if pc > -tp:
        if dc > -td and rel is not None and inside(dc, td):
            return True
        if dc < td and rel is None:
            return True
    return False


def check_relgap(sol, r, msgs, extra_none_ok=False):
    rel = sol.get("relative gap")
    if rel is not None and not isnum(rel):
        msgs.append("'relative gap' = %r" % (rel,))
        return None
    tgap = ROUND * r["gap_scale"] + TINY
    tp = ROUND * r["pcost_scale"] + TINY
    td = ROUND * (r["dcost_scale"] + r.get("dcost_extra", 0.0)) + TINY
    if extra_none_ok and (rel is None or rel == 0.0):
        return rel
    if not relgap_ok(rel, r["gap"], tgap, r["pcost"], tp, r["dcost"], td):
        msgs.append("'relative gap' = %r does not follow the documented rule (gap=%r pcost=%r dcost=%r)" % (
            rel, r["gap"], r["pcost"], r["dcost"]))
    return rel


def judge_optimal_lp(D, sol, v, feastol, abstol, reltol, maxiters=None, loose=None):
    """Checks items 1-4 of C01 for status 'optimal'.  v = dict x,s,y,z numpy.
    loose: None for the native solver, or a dict of back-end tolerances."""
    msgs = []
    x, s, y, z = v["x"], v["s"], v["y"], v["z"]
    for k in ("x", "s", "y", "z"):
        if v[k] is None:
            msgs.append("'optimal' but %s is None" % k)
    if msgs:
        return msgs
    if len(x) != D.n or len(s) != D.N or len(z) != D.N or len(y) != D.p:
        return ["returned vector sizes x:%d s:%d y:%d z:%d, expected %d %d %d %d" % (
            len(x), len(s), len(y), len(z), D.n, D.N, D.p, D.N)]
    if not (np.all(np.isfinite(x)) and np.all(np.isfinite(s)) and np.all(np.isfinite(y)) and np.all(np.isfinite(z))):
        return ["non-finite entries in the returned vectors"]
    r = recompute_lp(D, x, s, y, z)
    sym_exact(s, D.dims, "s", msgs)
    sym_exact(z, D.dims, "z", msgs)
    ft = feastol if loose is None else loose["feas"]
    # 1. residuals
    if r["pres"] > ft * (1 + 1e-6) + ROUND * r["pres_scale"]:
        msgs.append("recomputed primal infeasibility %.3e > feastol %.1e" % (r["pres"], ft))
    if r["dres"] > ft * (1 + 1e-6) + ROUND * r["dres_scale"]:
        msgs.append("recomputed dual infeasibility %.3e > feastol %.1e" % (r["dres"], ft))
    # 2. cone membership
    slk = ROUND if loose is None else loose["slack"]
    if r["pslack"] < -slk * max(1.0, r["ns"]):
        msgs.append("s outside the cone: min slack %.3e" % r["pslack"])
    if r["dslack"] < -slk * max(1.0, r["nz"]):
        msgs.append("z outside the cone: min slack %.3e" % r["dslack"])
    # 4. reported fields
    def fld(name, val, scale):
        rep = sol.get(name)
        if not isnum(rep):
            msgs.append("field %r = %r" % (name, rep))
        elif not close(rep, val, scale):
            msgs.append("field %r = %r but recomputed %r (scale %.2e)" % (name, rep, val, scale))
    fscale = 1.0 if loose is None else loose.get("field_scale", 1.0)
    fld("gap", r["gap"], r["gap_scale"] * fscale)
    fld("primal objective", r["pcost"], r["pcost_scale"] * fscale)
    fld("dual objective", r["dcost"], r["dcost_scale"] * fscale)
    fld("primal infeasibility", r["pres"], r["pres_scale"] * fscale)
    fld("dual infeasibility", r["dres"], r["dres_scale"] * fscale)
    if D.N:
        fld("primal slack", r["pslack"], max(1.0, r["ns"]) * fscale)
        fld("dual slack", r["dslack"], max(1.0, r["nz"]) * fscale)
    for k in ("residual as primal infeasibility certificate", "residual as dual infeasibility certificate"):
        if sol.get(k, "missing") is not None:
            msgs.append("field %r = %r for status 'optimal' (documented None)" % (k, sol.get(k, "missing")))
    rel = None
    if not msgs:
        rel = check_relgap(sol, r, msgs)
    # 3. gap criterion
    at = abstol if loose is None else loose["gap"]
    rt = reltol if loose is None else loose["relgap"]
    gap_ok = r["gap"] <= at + ROUND * r["gap_scale"]
    mn = min(r["pcost"], r["dcost"])
    if not gap_ok:
        # documented: relative gap = gap / max(-pcost, dcost) when positive
        den = max(-r["pcost"], r["dcost"])
        if den > 0 and r["gap"] / den <= rt * (1 + 1e-6) + ROUND * r["gap_scale"] / den:
            gap_ok = True
    if not gap_ok:
        msgs.append("gap criterion fails: gap %.3e (abstol %.1e), pcost %.6e dcost %.6e (reltol %.1e)" % (
            r["gap"], at, r["pcost"], r["dcost"], rt))
    if loose is None or "iterations" in sol:
        it = sol.get("iterations")
        if not isinstance(it, int) or isinstance(it, bool) or it < 0 or (maxiters is not None and it > maxiters):
            msgs.append("'iterations' = %r (maxiters %r)" % (it, maxiters))
    return msgs


def judge_primal_infeasible(D, sol, v, feastol, loose=None):
    msgs = []
    if v["x"] is not None or v["s"] is not None:
        msgs.append("'primal infeasible' but x or s is not None")
    y, z = v["y"], v["z"]
    if y is None or z is None:
        return msgs + ["'primal infeasible' but y or z is None"]
    if len(z) != D.N or len(y) != D.p:
        return msgs + ["certificate sizes y:%d z:%d expected %d %d" % (len(y), len(z), D.p, D.N)]
    if not (np.all(np.isfinite(y)) and np.all(np.isfinite(z))):
        return msgs + ["non-finite certificate"]
    zs = rc.symvec(z, D.dims)
    sym_exact(z, D.dims, "z", msgs)
    hz = float(D.h @ zs) + float(D.b @ y)
    sc = nrm(D.h) * nrm(zs) + nrm(D.b) * nrm(y) + 1.0
    if abs(hz + 1.0) > ROUND * sc + TINY:
        msgs.append("h'z + b'y = %r, not -1" % hz)
    dsl = rc.min_slack(z, D.dims)
    slk = ROUND if loose is None else loose["slack"]
    if dsl < -slk * max(1.0, nrm(zs)):
        msgs.append("certificate z outside the cone: min slack %.3e" % dsl)
    res = nrm(D.G.T @ zs + D.A.T @ y) / D.resx0
    rsc = (D.nG * nrm(zs) + D.nA * nrm(y)) / D.resx0
    ft = feastol if loose is None else loose["feas"]
    if res > ft * (1 + 1e-6) + ROUND * rsc:
        msgs.append("||G'z + A'y||/max(1,||c||) = %.3e > feastol %.1e" % (res, ft))
    rep = sol.get("residual as primal infeasibility certificate")
    if not isnum(rep) or not close(rep, res, rsc):
        msgs.append("reported certificate residual %r, recomputed %r" % (rep, res))
    rep = sol.get("dual slack")
    if not isnum(rep) or not close(rep, dsl, max(1.0, nrm(zs))):
        msgs.append("reported 'dual slack' %r, recomputed %r" % (rep, dsl))
    if sol.get("dual objective") != 1.0:
        msgs.append("'dual objective' = %r (documented 1.0)" % (sol.get("dual objective"),))
    for k in ("gap", "relative gap", "primal objective", "primal infeasibility", "dual infeasibility",
              "primal slack", "residual as dual infeasibility certificate"):
        if sol.get(k, "missing") is not None:
            msgs.append("field %r = %r for 'primal infeasible' (expected None)" % (k, sol.get(k, "missing")))
    return msgs


def judge_dual_infeasible(D, sol, v, feastol, loose=None):
    msgs = []
    if v["y"] is not None or v["z"] is not None:
        msgs.append("'dual infeasible' but y or z is not None")
    x, s = v["x"], v["s"]
    if x is None or s is None:
        return msgs + ["'dual infeasible' but x or s is None"]
    if len(x) != D.n or len(s) != D.N:
        return msgs + ["certificate sizes x:%d s:%d expected %d %d" % (len(x), len(s), D.n, D.N)]
    if not (np.all(np.isfinite(x)) and np.all(np.isfinite(s))):
        return msgs + ["non-finite certificate"]
    ss = rc.symvec(s, D.dims)
    sym_exact(s, D.dims, "s", msgs)
    cx = float(D.c @ x)
    if abs(cx + 1.0) > ROUND * (nrm(D.c) * nrm(x) + 1.0) + TINY:
        msgs.append("c'x = %r, not -1" % cx)
    psl = rc.min_slack(s, D.dims)
    slk = ROUND if loose is None else loose["slack"]
    if psl < -slk * max(1.0, nrm(ss)):
        msgs.append("certificate s outside the cone: min slack %.3e" % psl)
    res = max(nrm(D.G @ x + ss) / D.resz0, nrm(D.A @ x) / D.resy0)
    rsc = (D.nG * nrm(x) + nrm(ss)) / D.resz0 + D.nA * nrm(x) / D.resy0
    ft = feastol if loose is None else loose["feas"]
    if res > ft * (1 + 1e-6) + ROUND * rsc:
        msgs.append("max(||Gx+s||/max(1,||h||), ||Ax||/max(1,||b||)) = %.3e > feastol %.1e" % (res, ft))
    rep = sol.get("residual as dual infeasibility certificate")
    if not isnum(rep) or not close(rep, res, rsc):
        msgs.append("reported certificate residual %r, recomputed %r" % (rep, res))
    rep = sol.get("primal slack")
    if not isnum(rep) or not close(rep, psl, max(1.0, nrm(ss))):
        msgs.append("reported 'primal slack' %r, recomputed %r" % (rep, psl))
    if sol.get("primal objective") != -1.0:
        msgs.append("'primal objective' = %r (documented -1.0)" % (sol.get("primal objective"),))
    for k in ("gap", "relative gap", "dual objective", "primal infeasibility", "dual infeasibility",
              "dual slack", "residual as primal infeasibility certificate"):
        if sol.get(k, "missing") is not None:
            msgs.append("field %r = %r for 'dual infeasible' (expected None)" % (k, sol.get(k, "missing")))
    return msgs


# ----------------------------------------------------------------- QP

def recompute_qp(D, x, s, y, z):
    dims = D.dims
    r = {}
    ss = rc.symvec(s, dims)
    zs = rc.symvec(z, dims)
    rz = D.G @ x + ss - D.h
    ry = D.A @ x - D.b
    Px = D.P @ x
    rx = Px + D.G.T @ zs + D.A.T @ y + D.q
    r["pres"] = max(nrm(ry) / D.resy0, nrm(rz) / D.resz0)
    r["dres"] = nrm(rx) / D.resx0
    r["pres_scale"] = (D.nG * nrm(x) + nrm(ss) + nrm(D.h)) / D.resz0 + (D.nA * nrm(x) + nrm(D.b)) / D.resy0
    r["dres_scale"] = (D.nP * nrm(x) + D.nG * nrm(zs) + D.nA * nrm(y) + nrm(D.q)) / D.resx0
    r["gap"] = float(ss @ zs)
    r["gap_scale"] = nrm(ss) * nrm(zs)
    f0 = 0.5 * float(x @ Px) + float(D.q @ x)
    r["pcost"] = f0
    r["pcost_scale"] = D.nP * nrm(x) ** 2 + nrm(D.q) * nrm(x)
    # documented: dual objective L(x,y,z) = f0 + z'(Gx-h) + y'(Ax-b)
    r["dcost"] = f0 + float(zs @ (D.G @ x - D.h)) + float(y @ ry)
    r["dcost_scale"] = r["pcost_scale"] + nrm(zs) * (D.nG * nrm(x) + nrm(D.h)) + nrm(y) * (D.nA * nrm(x) + nrm(D.b))
    r["pslack"] = rc.min_slack(s, dims)
    r["dslack"] = rc.min_slack(z, dims)
    r["ns"], r["nz"] = nrm(ss), nrm(zs)
    return r
