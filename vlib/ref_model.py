"""Expression trees for the modeling layer: typed Hypothesis generator, reference evaluator (numpy, following
modeling.rst) and interpreter that builds the cvxopt.modeling object from the same tree."""
import numpy as np
from hypothesis import strategies as st

DY = [k / 2.0 for k in range(-6, 7)]
SCAL = [0.5, 2.0, -1.0, -2.0, 4.0, 0.25, -0.5, 1.0, -4.0]


class Invalid(Exception):
    """The reference says the expression is not a valid (convex/concave, dimensionally consistent) function."""


def flip(c):
    return {"convex": "concave", "concave": "convex"}.get(c, c)


def join(c1, c2):
    order = {"const": 0, "affine": 1}
    if c1 in order and c2 in order:
        return c1 if order[c1] >= order[c2] else c2
    if c1 in order:
        return c2
    if c2 in order:
        return c1
    if c1 == c2:
        return c1
    raise Invalid("sum of a convex and a concave function")


def norm_key(key, n):
    """index list selected by `key` in a vector of length n (IndexError if out of range)."""
    k = key[0]
    if k == "int":
        i = key[1]
        if not -n <= i < n:
            raise Invalid("index out of range")
        return [i % n]
    if k == "slice":
        return list(range(n))[slice(key[1], key[2], key[3])]
    idx = []
    for i in key[1]:
        if not -n <= i < n:
            raise Invalid("index out of range")
        idx.append(i % n)
    return idx


def bcast(v, L):
    return np.full(L, v[0]) if len(v) == 1 and L > 1 else v


def evaluate(t, lens, vals):
    """-> (length, curvature, value ndarray).  vals: list of ndarrays (variable values)."""
    op = t[0]
    if op == "var":
        return lens[t[1]], "affine", np.array(vals[t[1]], dtype=float)
    if op == "const":
        v = np.atleast_1d(np.array(t[1], dtype=float))
        return len(v), "const", v
    if op in ("pos", "neg"):
        L, c, v = evaluate(t[1], lens, vals)
        return (L, c, v) if op == "pos" else (L, flip(c), -v)
    if op in ("add", "sub", "iadd", "isub"):
        L1, c1, v1 = evaluate(t[1], lens, vals)
        L2, c2, v2 = evaluate(t[2], lens, vals)
        if L1 != L2 and 1 not in (L1, L2):
            raise Invalid("lengths %d and %d" % (L1, L2))
        if op in ("iadd", "isub") and L2 != L1 and L2 != 1:
            raise Invalid("in-place operation would change the length")
        if op in ("sub", "isub"):
            c2, v2 = flip(c2), -v2
        L = max(L1, L2)
        return L, join(c1, c2), bcast(v1, L) + bcast(v2, L)
    if op in ("smul", "mulr", "imul"):
        a = t[1] if op == "smul" else t[2]
        L, c, v = evaluate(t[2] if op == "smul" else t[1], lens, vals)
        return L, (flip(c) if a < 0 else c), a * v
    if op in ("div", "idiv"):
        L, c, v = evaluate(t[1], lens, vals)
        a = t[2]
        if a == 0:
            raise Invalid("division by zero")
        return L, (flip(c) if a < 0 else c), v / a
    if op == "matmul":
        A = np.array(t[1], dtype=float)
        L, c, v = evaluate(t[2], lens, vals)
        if c not in ("const", "affine"):
            raise Invalid("matrix times piecewise-linear function")
        if A.shape[1] != L:
            raise Invalid("matrix with %d columns times function of length %d" % (A.shape[1], L))
        return A.shape[0], c, A @ v
    if op == "vmul":
        L, c, v = evaluate(t[1], lens, vals)
        a = np.array(t[2], dtype=float)
        if L != 1 or c not in ("const", "affine"):
            raise Invalid("f*a with len(f) != 1")
        return len(a), c, a * v[0]
    if op == "index":
        L, c, v = evaluate(t[1], lens, vals)
        idx = norm_key(t[2], L)
        if not idx:
            raise Invalid("empty index set")
        return len(idx), c, v[idx]
    if op == "sum":
        L, c, v = evaluate(t[1], lens, vals)
        return 1, c, np.array([float(np.sum(v))])
    if op == "dot":
        u = np.array(t[1], dtype=float)
        L, c, v = evaluate(t[2], lens, vals)
        if c not in ("const", "affine") or len(u) != L:
            raise Invalid("dot")
        return 1, c, np.array([float(u @ v)])
    if op in ("max", "min"):
        want = "convex" if op == "max" else "concave"
        parts = [evaluate(a, lens, vals) for a in t[1]]
        L = max(p[0] for p in parts)
        for (l, c, v) in parts:
            if l not in (1, L):
                raise Invalid("max/min argument lengths")
            if c not in ("const", "affine", want):
                raise Invalid("%s of a %s function" % (op, c))
        if len(parts) == 1:
            l, c, v = parts[0]
            return 1, want, np.array([float(np.max(v) if op == "max" else np.min(v))])
        M = np.vstack([bcast(v, L) for (l, c, v) in parts])
        return L, want, (M.max(axis=0) if op == "max" else M.min(axis=0))
    if op == "abs":
        L, c, v = evaluate(t[1], lens, vals)
        if c not in ("const", "affine"):
            raise Invalid("abs of a piecewise-linear function")
        return L, "convex", np.abs(v)
    raise AssertionError(op)


def tree_vars(t, acc=None):
    acc = set() if acc is None else acc
    if t[0] == "var":
        acc.add(t[1])
    elif t[0] in ("max", "min"):
        for a in t[1]:
            tree_vars(a, acc)
    else:
        for a in t[1:]:
            if isinstance(a, list) and a and isinstance(a[0], str):
                tree_vars(a, acc)
    return acc


# ------------------------------------------------------------------ interpreter (cvxopt objects)

def cvx_col(v, sparse=False):
    from cvxopt import matrix, sparse as sp
    m = matrix([float(x) for x in np.atleast_1d(v)], (len(np.atleast_1d(v)), 1), "d")
    return sp(m) if sparse else m


def cvx_mat(A, sparse=False):
    from cvxopt import matrix, sparse as sp
    A = np.array(A, dtype=float)
    m = matrix(A.reshape(-1, order="F").tolist(), A.shape, "d")
    return sp(m) if sparse else m


def key_obj(key):
    from cvxopt import matrix
    k = key[0]
    if k == "int":
        return key[1]
    if k == "slice":
        return slice(key[1], key[2], key[3])
    if k == "list":
        return list(key[1])
    return matrix(list(key[1]), (len(key[1]), 1), "i")


def build(t, xs, flags=None):
    """cvxopt.modeling object for tree t over the variables xs.  flags: dict(sparse=bool[, record=list, consumed=set]).
    With flags['record'] every built sub-expression is appended as (subtree, object); objects that are legitimately
    updated in place later (left operand of += etc.) have their id in flags['consumed']."""
    obj = _build(t, xs, flags)
    if flags is not None and flags.get("record") is not None:
        flags["record"].append((t, obj))
    return obj


def _build(t, xs, flags=None):
    from cvxopt import modeling as M
    sp = bool(flags and flags.get("sparse"))
    op = t[0]
    if op == "var":
        return xs[t[1]]
    if op == "const":
        v = t[1]
        if isinstance(v, (int, float)):
            return float(v)
        return cvx_col(v, sparse=(len(t) > 2 and t[2] == "sp"))
    if op == "pos":
        return +build(t[1], xs, flags)
    if op == "neg":
        return -build(t[1], xs, flags)
    if op == "add":
        return build(t[1], xs, flags) + build(t[2], xs, flags)
    if op == "sub":
        return build(t[1], xs, flags) - build(t[2], xs, flags)
    if op in ("iadd", "isub", "imul", "idiv"):
        a = build(t[1], xs, flags)
        if not isinstance(a, M._function):
            a = +a if not isinstance(a, (float, int)) and not hasattr(a, "size") else M._function() + a
        elif flags is not None and flags.get("consumed") is not None:
            flags["consumed"].add(id(a))
        b = build(t[2], xs, flags) if op in ("iadd", "isub") else t[2]
        if op == "iadd":
            a += b
        elif op == "isub":
            a -= b
        elif op == "imul":
            a *= b
        else:
            a /= b
        return a
    if op == "smul":
        return t[1] * build(t[2], xs, flags)
    if op == "mulr":
        return build(t[1], xs, flags) * t[2]
    if op == "div":
        return build(t[1], xs, flags) / t[2]
    if op == "matmul":
        return cvx_mat(t[1], sp) * build(t[2], xs, flags)
    if op == "vmul":
        return build(t[1], xs, flags) * cvx_col(t[2])
    if op == "index":
        return build(t[1], xs, flags)[key_obj(t[2])]
    if op == "sum":
        return M.sum(build(t[1], xs, flags))
    if op == "dot":
        return M.dot(cvx_col(t[1]), build(t[2], xs, flags))
    if op == "max":
        return M.max(*[build(a, xs, flags) for a in t[1]])
    if op == "min":
        return M.min(*[build(a, xs, flags) for a in t[1]])
    if op == "abs":
        return abs(build(t[1], xs, flags))
    raise AssertionError(op)


# ------------------------------------------------------------------ typed generator

def dyl(draw, n):
    v = [draw(st.sampled_from(DY)) for _ in range(n)]
    # a vector constant that starts with an exact zero (seed C12-10: the 'has a constant' test looked at entry 0 only)
    if n > 1 and draw(st.integers(0, 3)) == 0:
        v[0] = 0.0
    return v


@st.composite
def key_for(draw, n, L):
    """A key selecting exactly L >= 1 entries of a vector of length n."""
    idx = [draw(st.integers(-n, n - 1)) for _ in range(L)]
    kind = draw(st.sampled_from(["list", "imat", "int", "slice"]))
    if kind == "int" and L == 1:
        return ["int", idx[0]]
    if kind == "slice":
        for (a, b, c) in [(None, None, 1), (None, None, -1), (0, None, 2), (1, None, 2), (None, None, 2), (1, None, 1), (None, -1, 1)]:
            if len(list(range(n))[slice(a, b, c)]) == L:
                if draw(st.booleans()):
                    return ["slice", a, b, c]
    return [("imat" if kind == "imat" else "list"), idx]


@st.composite
def gen(draw, lens, L, curv, depth):
    """Tree of length L whose curvature is compatible with `curv` ('affine' | 'convex' | 'concave')."""
    nv = len(lens)
    leafs = []
    vs = [k for k in range(nv) if lens[k] == L]
    if depth <= 0:
        c = draw(st.integers(0, 3))
        if vs and c != 0:
            return ["var", draw(st.sampled_from(vs))]
        if c == 0 or not vs:
            k = draw(st.integers(0, nv - 1))
            if lens[k] == L:
                return ["var", k]
            if draw(st.booleans()):
                return ["matmul", [dyl(draw, lens[k]) for _ in range(L)], ["var", k]]
            return ["index", ["var", k], draw(key_for(lens[k], L))]
    kinds = ["var", "add", "add", "sub", "smul", "matmul", "index", "neg", "pos", "const", "div", "mulr", "iadd", "isub", "imul"]
    if L == 1:
        kinds += ["sum", "dot", "sum"]
    else:
        kinds += ["vmul"]
    if curv != "affine":
        kinds += ["minmax", "minmax", "minmax", "abs", "abs"]
        if L == 1:
            kinds += ["minmax1"]
    k = draw(st.sampled_from(kinds))
    d = depth - 1
    other = draw(st.sampled_from([L, L, 1]))
    if k == "var":
        return draw(gen(lens, L, curv, 0))
    if k == "const":
        cst = ["const", dyl(draw, L)] if (L > 1 or draw(st.booleans())) else ["const", draw(st.sampled_from(DY))]
        if isinstance(cst[1], list) and draw(st.booleans()):
            # "The constant terms in the sum can be ... dense or sparse 'd' matrices with one column" (modeling.rst):
            # zeros in the vector are structural zeros of the sparse column, so its nonzero count differs from its length
            cst.append("sp")
        form = draw(st.sampled_from(["add", "add", "radd", "sub", "rsub", "iadd", "isub"]))
        if form == "rsub":
            return ["sub", cst, draw(gen(lens, L, flip(curv), d))]
        f = draw(gen(lens, L, curv, d))
        if form == "radd":
            return ["add", cst, f]
        return [form, f, cst]
    if k in ("add", "iadd"):
        a = draw(gen(lens, L, curv, d))
        b = draw(gen(lens, other, curv, d))
        if k == "add" and draw(st.booleans()):
            a, b = b, a
        return [k, a, b]
    if k in ("sub", "isub"):
        return [k, draw(gen(lens, L, curv, d)), draw(gen(lens, other, flip(curv), d))]
    if k in ("smul", "mulr", "imul", "div"):
        a = draw(st.sampled_from(SCAL if k == "div" else SCAL + [0.0]))
        inner = draw(gen(lens, L, flip(curv) if a < 0 else curv, d))
        if k == "smul":
            return ["smul", a, inner]
        return [{"mulr": "mulr", "imul": "imul", "div": "div"}[k], inner, a]
    if k == "neg":
        return ["neg", draw(gen(lens, L, flip(curv), d))]
    if k == "pos":
        return ["pos", draw(gen(lens, L, curv, d))]
    if k == "matmul":
        m = draw(st.integers(1, 3))
        return ["matmul", [dyl(draw, m) for _ in range(L)], draw(gen(lens, m, "affine", d))]
    if k == "vmul":
        return ["vmul", draw(gen(lens, 1, "affine", d)), dyl(draw, L)]
    if k == "index":
        m = draw(st.integers(max(1, L), 4))
        return ["index", draw(gen(lens, m, curv, d)), draw(key_for(m, L))]
    if k == "sum":
        m = draw(st.integers(1, 3))
        if m > 1 and draw(st.booleans()):
            # vector term plus a scalar term that is broadcast inside the sum
            return ["sum", ["add", draw(gen(lens, m, curv, d)), draw(gen(lens, 1, curv, d))]]
        return ["sum", draw(gen(lens, m, curv, d))]
    if k == "dot":
        m = draw(st.integers(1, 3))
        return ["dot", dyl(draw, m), draw(gen(lens, m, "affine", d))]
    if k == "abs":
        t = ["abs", draw(gen(lens, L, "affine", d))]
        return t if curv == "convex" else ["neg", t]
    if k == "minmax":
        op = "max" if curv == "convex" else "min"
        n_args = draw(st.integers(2, 4))
        args = [draw(gen(lens, L if i == 0 else draw(st.sampled_from([L, 1])), curv, d)) for i in range(n_args)]
        # constant arguments (one or several, scalar or vector); the first argument stays a function
        for i in range(1, n_args):
            if draw(st.integers(0, 3)) == 0:
                args[i] = ["const", draw(st.sampled_from(DY))] if (L == 1 or draw(st.booleans())) else ["const", dyl(draw, L)]
        if L > 1 and draw(st.integers(0, 5)) == 0:
            # several constant arguments of mixed shapes (they are folded into one constant when the term is built):
            # a scalar and a vector constant whose entries lie on both sides of the scalar, in either order
            cs = draw(st.sampled_from(DY))
            cv = [cs + draw(st.sampled_from([-1.5, -0.5, 0.5, 1.0, 2.0])) for _ in range(L)]
            pair = [["const", cs], ["const", cv]]
            if draw(st.booleans()):
                pair.reverse()
            args = args[:max(1, n_args - 2)] + pair
        return [op, args]
    if k == "minmax1":
        op = "max" if curv == "convex" else "min"
        m = draw(st.integers(1, 3))
        return [op, [draw(gen(lens, m, curv, d))]]
    raise AssertionError(k)


@st.composite
def invalid_tree(draw, lens):
    """Trees that modeling.rst rules out: mismatched lengths, convex + concave, max of concave, matrix * PWL."""
    kind = draw(st.sampled_from(["len", "len", "curv", "maxcc", "matpwl", "index", "inplace_len"]))
    if kind == "len":
        return ["add", draw(gen(lens, 2, "affine", 1)), draw(gen(lens, 3, "affine", 1))]
    L = draw(st.sampled_from([1, 2, 3]))
    if kind == "curv":
        a = ["abs", draw(gen(lens, L, "affine", 1))]
        b = ["abs", draw(gen(lens, draw(st.sampled_from([L, 1])), "affine", 1))]
        if draw(st.booleans()):
            a, b = ["max", [draw(gen(lens, L, "affine", 1)), draw(gen(lens, L, "affine", 1))]], a
        if draw(st.booleans()):
            return ["add", a, ["neg", b]]          # convex + concave
        return ["sub", a, b]                       # convex - convex
    if kind == "maxcc":
        return ["max", [["min", [draw(gen(lens, L, "affine", 1)), draw(gen(lens, L, "affine", 1))]], draw(gen(lens, L, "affine", 1))]]
    if kind == "matpwl":
        return ["matmul", [dyl(draw, L) for _ in range(2)], ["abs", draw(gen(lens, L, "affine", 1))]]
    if kind == "index":
        return ["index", draw(gen(lens, 2, "convex", 1)), ["int", draw(st.sampled_from([2, 3, -3, 7]))]]
    return ["iadd", draw(gen(lens, 1, "affine", 1)), draw(gen(lens, 3, "affine", 1))]
