"""Pure-Python column-major model of cvxopt dense matrices, written from doc/source/matrices.rst.
A model answer is either a value (ModelMatrix / Python number / other) or raises ModelError(kind)."""
import cmath, math

ORDER = {"i": 0, "d": 1, "z": 2}
TC = "idz"


class ModelError(Exception):
    """The documented rules give no answer; `kind` is the documented exception class name or None (any of
    IndexError / TypeError / ValueError / ZeroDivisionError / ArithmeticError / NotImplementedError)."""
    def __init__(self, kind=None, why=""):
        Exception.__init__(self, "%s %s" % (kind, why))
        self.kind = kind


class Unspecified(Exception):
    """The manual leaves the behaviour open; the case is not judged."""


def tc_of_number(x):
    if isinstance(x, bool):
        raise ModelError("TypeError", "bool")
    if isinstance(x, int):
        return "i"
    if isinstance(x, float):
        return "d"
    if isinstance(x, complex):
        return "z"
    raise ModelError("TypeError", "not a number")


def conv(x, tc):
    """Convert number x to typecode tc (only upward conversions are allowed)."""
    t = tc_of_number(x)
    if ORDER[t] > ORDER[tc]:
        raise ModelError("TypeError", "cannot convert %s to %s" % (t, tc))
    if tc == "i":
        return int(x)
    if tc == "d":
        return float(x)
    return complex(x)


def promote(a, b):
    return a if ORDER[a] >= ORDER[b] else b


class MM:
    """Model matrix: typecode, nrows, ncols, column-major list."""
    def __init__(self, tc, m, n, v):
        assert len(v) == m * n
        self.tc, self.m, self.n, self.v = tc, m, n, list(v)

    def copy(self):
        return MM(self.tc, self.m, self.n, self.v)

    def __len__(self):
        return self.m * self.n

    def at(self, i, j):
        return self.v[i + j * self.m]

    def same(self, o):
        return isinstance(o, MM) and (self.tc, self.m, self.n) == (o.tc, o.m, o.n) and self.v == o.v

    def __repr__(self):
        return "MM(%r,%d,%d,%r)" % (self.tc, self.m, self.n, self.v)


def is_scalar(x):
    return isinstance(x, (int, float, complex)) and not isinstance(x, bool)


# ------------------------------------------------------------------ construction

def construct(x, size=None, tc=None):
    if tc is not None and tc not in TC:
        raise ModelError("TypeError", "tc")
    if size is not None:
        if not (isinstance(size, tuple) and len(size) == 2 and all(isinstance(s, int) for s in size)) or min(size) < 0:
            raise ModelError("TypeError", "size")
    if is_scalar(x):
        t = tc or tc_of_number(x)
        m, n = size or (1, 1)
        return MM(t, m, n, [conv(x, t)] * (m * n))
    if isinstance(x, MM):
        t = tc or x.tc
        m, n = size or (x.m, x.n)
        if m * n != len(x):
            raise ModelError("TypeError", "wrong matrix dimensions")
        return MM(t, m, n, [conv(v, t) for v in x.v])
    if isinstance(x, (list, tuple, range)):
        xs = list(x)
        if any(not is_scalar(v) for v in xs):
            raise ModelError(None, "non-number in sequence")
        if tc is None:
            t = "i"
            for v in xs:
                t = promote(t, tc_of_number(v))
        else:
            t = tc
        m, n = size or (len(xs), 1)
        if m * n != len(xs):
            raise ModelError("TypeError", "wrong matrix dimensions")
        return MM(t, m, n, [conv(v, t) for v in xs])
    raise ModelError("TypeError", "unsupported source")


def construct_blocks(cols, tc=None):
    """matrix([[b11, b12, ...], [b21, ...], ...]): each inner list is a block COLUMN; its blocks are stacked
    vertically (numbers are 1x1), the block columns are juxtaposed."""
    t = "i"
    for col in cols:
        for b in col:
            t = promote(t, b.tc if isinstance(b, MM) else tc_of_number(b))
    if tc is not None:
        t = tc
    built = []
    for col in cols:
        width = None
        rows = []
        for b in col:
            bm = b if isinstance(b, MM) else MM(tc_of_number(b), 1, 1, [b])
            if width is None:
                width = bm.n
            elif bm.n != width:
                raise ModelError("TypeError", "incompatible dimensions of subblocks")
            rows.append(bm)
        if width is None:
            width = 0
        built.append((width, rows))
    heights = [sum(b.m for b in rows) for (w, rows) in built]
    if len(set(heights)) > 1:
        raise ModelError("TypeError", "incompatible dimensions of subblocks")
    H = heights[0] if heights else 0
    out = []
    for (w, rows) in built:
        for j in range(w):
            for b in rows:
                for i in range(b.m):
                    out.append(conv(b.at(i, j), t))
    return MM(t, H, sum(w for w, _ in built), out)


# ------------------------------------------------------------------ indexing

def idx_list(key, n):
    """key descriptor -> list of indices in range(n); ('int', i) | ('slice', a, b, c) | ('list', [..]) | ('imat', [..])"""
    k = key[0]
    if k == "int":
        i = key[1]
        if not -n <= i < n:
            raise ModelError("IndexError", "index out of range")
        return [i % n] if n else []
    if k == "slice":
        return list(range(n))[slice(key[1], key[2], key[3])]
    out = []
    for i in key[1]:
        if not -n <= i < n:
            raise ModelError("IndexError", "index out of range")
        out.append(i % n)
    return out


def getitem(A, key1, key2=None):
    if key2 is None:
        I = idx_list(key1, len(A))
        if key1[0] == "int":
            return A.v[I[0]]
        return MM(A.tc, len(I), 1, [A.v[i] for i in I])
    I = idx_list(key1, A.m)
    J = idx_list(key2, A.n)
    if key1[0] == "int" and key2[0] == "int":
        return A.at(I[0], J[0])
    return MM(A.tc, len(I), len(J), [A.at(i, j) for j in J for i in I])


def setitem(A, rhs, key1, key2=None):
    """In place on the model matrix A.  rhs: number | MM | list of numbers.  When several documented rules are
    violated at once (index out of range AND wrong type/size) the exception class is left open."""
    errs = []
    pos, shape = None, None
    try:
        if key2 is None:
            I = idx_list(key1, len(A))
            pos = I
            shape = (len(I), 1)
        else:
            Ir, Jc = None, None
            try:
                Ir = idx_list(key1, A.m)
            except ModelError as e:
                errs.append(e)
            Jc = idx_list(key2, A.n)
            if Ir is None:
                raise errs.pop()
            pos = [i + j * A.m for j in Jc for i in Ir]
            shape = (len(Ir), len(Jc))
    except ModelError as e:
        errs.append(e)
    # type rule
    if is_scalar(rhs):
        rt = tc_of_number(rhs)
    elif isinstance(rhs, MM):
        rt = rhs.tc
    else:
        rt = "i"
        for v in rhs:
            rt = promote(rt, tc_of_number(v))
    if ORDER[rt] > ORDER[A.tc]:
        errs.append(ModelError("TypeError", "assignment would change the type"))
    vals = None
    if pos is not None and not errs and len(pos) == 0 and not is_scalar(rhs):
        # assignment to an empty selection with a matrix/sequence right-hand side: which sizes are
        # accepted is not specified by the manual
        raise Unspecified("empty selection")
    if pos is not None and not errs:
        if is_scalar(rhs):
            vals = [conv(rhs, A.tc)] * len(pos)
        elif isinstance(rhs, MM):
            if (rhs.m, rhs.n) == (1, 1) and shape != (1, 1):
                vals = [conv(rhs.v[0], A.tc)] * len(pos)
            elif (rhs.m, rhs.n) != shape:
                errs.append(ModelError("TypeError", "argument has wrong size"))
            else:
                vals = [conv(v, A.tc) for v in rhs.v]
        else:
            xs = list(rhs)
            if len(xs) == 1 and len(pos) != 1:
                vals = [conv(xs[0], A.tc)] * len(pos)      # a sequence of length 1 is a 1x1 matrix, i.e. a scalar
            elif len(xs) != len(pos):
                errs.append(ModelError("TypeError", "argument has wrong size"))
            else:
                vals = [conv(v, A.tc) for v in xs]
    if errs:
        kinds = {e.kind for e in errs}
        raise ModelError(kinds.pop() if len(kinds) == 1 else None, "; ".join(str(e) for e in errs))
    for p, v in zip(pos, vals):
        A.v[p] = v


# ------------------------------------------------------------------ arithmetic

def as_mm_or_scalar(x):
    return x


def elementwise(a, b, f, tc):
    return [conv(f(conv(x, tc), conv(y, tc)), tc) for x, y in zip(a, b)]


def addsub(A, B, sign):
    """A + B or A - B with the scalar / 1x1 broadcasting rules.  A, B: MM or number (at least one MM)."""
    ta = A.tc if isinstance(A, MM) else tc_of_number(A)
    tb = B.tc if isinstance(B, MM) else tc_of_number(B)
    t = promote(ta, tb)
    if isinstance(A, MM) and isinstance(B, MM):
        if (A.m, A.n) == (B.m, B.n):
            m, n, av, bv = A.m, A.n, A.v, B.v
        elif (B.m, B.n) == (1, 1):
            m, n, av, bv = A.m, A.n, A.v, B.v * len(A)
        elif (A.m, A.n) == (1, 1):
            m, n, av, bv = B.m, B.n, A.v * len(B), B.v
        else:
            raise ModelError("TypeError", "incompatible dimensions")
    elif isinstance(A, MM):
        m, n, av, bv = A.m, A.n, A.v, [B] * len(A)
    else:
        m, n, av, bv = B.m, B.n, [A] * len(B), B.v
    return MM(t, m, n, [conv(conv(x, t) + sign * conv(y, t), t) for x, y in zip(av, bv)])


def mul(A, B):
    ta = A.tc if isinstance(A, MM) else tc_of_number(A)
    tb = B.tc if isinstance(B, MM) else tc_of_number(B)
    t = promote(ta, tb)
    if not isinstance(A, MM):
        return MM(t, B.m, B.n, [conv(conv(A, t) * conv(v, t), t) for v in B.v])
    if not isinstance(B, MM):
        return MM(t, A.m, A.n, [conv(conv(v, t) * conv(B, t), t) for v in A.v])
    if A.n == B.m:
        out = []
        for j in range(B.n):
            for i in range(A.m):
                s = conv(0, t)
                for k in range(A.n):
                    s = s + conv(A.at(i, k), t) * conv(B.at(k, j), t)
                out.append(conv(s, t))
        return MM(t, A.m, B.n, out)
    if (A.m, A.n) == (1, 1):
        return MM(t, B.m, B.n, [conv(conv(A.v[0], t) * conv(v, t), t) for v in B.v])
    if (B.m, B.n) == (1, 1):
        return MM(t, A.m, A.n, [conv(conv(v, t) * conv(B.v[0], t), t) for v in A.v])
    raise ModelError("TypeError", "incompatible dimensions")


def div(A, c):
    if not isinstance(A, MM):
        if isinstance(c, MM) and (c.m, c.n) == (1, 1):
            raise Unspecified("number / 1x1 matrix")
        raise ModelError("TypeError", "number / matrix")
    if isinstance(c, MM):
        if (c.m, c.n) != (1, 1):
            raise ModelError("TypeError", "matrix / matrix")
        tcc, cv = c.tc, c.v[0]
    else:
        tcc, cv = tc_of_number(c), c
    t = promote(promote(A.tc, tcc), "d")        # Python 3 true division: integer / integer -> 'd'
    if cv == 0:
        raise ModelError("ZeroDivisionError", "division by zero")
    return MM(t, A.m, A.n, [conv(conv(v, t) / conv(cv, t), t) for v in A.v])


def neg(A):
    return MM(A.tc, A.m, A.n, [-v for v in A.v])


def power(A, e):
    """D**e, elementwise; integer matrices give 'd' (documented exception to the Python conventions)."""
    te = tc_of_number(e)
    t = promote(promote(A.tc, te), "d")
    out = []
    for v in A.v:
        if v == 0 and (e <= 0):
            raise Unspecified("0 ** nonpositive")
        try:
            if t == "d":
                r = float(v) ** e
                if isinstance(r, complex):
                    raise ModelError("ValueError", "domain error")
            else:
                r = complex(v) ** e
        except ZeroDivisionError:
            raise ModelError(None, "0 ** negative")
        except OverflowError:
            raise ModelError(None, "overflow")
        out.append(conv(r, t))
    return MM(t, A.m, A.n, out)


def transpose(A, conj=False):
    out = []
    for i in range(A.m):          # new column i = old row i
        for j in range(A.n):
            v = A.at(i, j)
            out.append(v.conjugate() if conj and A.tc == "z" else v)
    return MM(A.tc, A.n, A.m, out)


def real(A):
    if A.tc == "z":
        return MM("d", A.m, A.n, [v.real for v in A.v])
    return A.copy()


def imag(A):
    if A.tc == "z":
        return MM("d", A.m, A.n, [v.imag for v in A.v])
    return MM(A.tc, A.m, A.n, [conv(0, A.tc)] * len(A))


def mabs(A):
    if A.tc == "z":
        return MM("d", A.m, A.n, [abs(v) for v in A.v])
    return MM(A.tc, A.m, A.n, [abs(v) for v in A.v])


def inplace(A, op, B):
    """Returns the new content for A (same object) or raises: allowed exactly when the type does not change."""
    if op in ("add", "sub"):
        R = addsub(A, B, 1 if op == "add" else -1)
        if isinstance(B, MM) and (B.m, B.n) != (A.m, A.n) and (B.m, B.n) != (1, 1):
            raise ModelError("TypeError", "incompatible dimensions")
        if (R.m, R.n) != (A.m, A.n):
            raise ModelError("TypeError", "in-place operation would change the size")
    elif op == "mul":
        if isinstance(B, MM) and (B.m, B.n) != (1, 1):
            # "In-place matrix-matrix products are not allowed" -- also when one of the matrices is empty
            raise ModelError("TypeError", "in-place matrix product")
        c = B.v[0] if isinstance(B, MM) else B
        tb = B.tc if isinstance(B, MM) else tc_of_number(B)
        t = promote(A.tc, tb)
        R = MM(t, A.m, A.n, [conv(conv(v, t) * conv(c, t), t) for v in A.v])
    elif op == "div":
        R = div(A, B)
    else:
        raise AssertionError(op)
    if R.tc != A.tc:
        raise ModelError("TypeError", "invalid inplace operation (type would change)")
    return R
