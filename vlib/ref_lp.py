"""Independent conversion of a convex piecewise-linear modeling problem (expression trees of vlib.ref_model)
into a linear program (epigraph form), solved with scipy's HiGHS."""
import numpy as np
from vlib import ref_model as rm


class Row:
    """Affine form  sum_j coef[j]*col_j + const  over the LP columns (sparse dict)."""
    __slots__ = ("c", "k")

    def __init__(self, c=None, k=0.0):
        self.c = dict(c or {})
        self.k = float(k)

    def __add__(self, o):
        r = Row(self.c, self.k + o.k)
        for j, v in o.c.items():
            r.c[j] = r.c.get(j, 0.0) + v
        return r

    def scale(self, a):
        return Row({j: a * v for j, v in self.c.items()}, a * self.k)


class Builder:
    def __init__(self, lens):
        self.lens = lens
        self.off = np.concatenate([[0], np.cumsum(lens)]).astype(int)
        self.ncols = int(self.off[-1])
        self.ub = []      # rows r meaning r <= 0
        self.eq = []      # rows r meaning r == 0

    def newvars(self, n):
        j = self.ncols
        self.ncols += n
        return [Row({j + i: 1.0}) for i in range(n)]

    @staticmethod
    def bc(rows, L):
        return rows * L if len(rows) == 1 and L > 1 else rows

    def bound(self, t, upper=True):
        """Rows that bound the (convex if upper else concave) tree t from above (below), adding epigraph
        variables and constraints as needed; exact for affine trees."""
        op = t[0]
        if op == "var":
            k = t[1]
            return [Row({int(self.off[k]) + i: 1.0}) for i in range(self.lens[k])]
        if op == "const":
            v = np.atleast_1d(np.array(t[1], dtype=float))
            return [Row({}, x) for x in v]
        if op == "pos":
            return self.bound(t[1], upper)
        if op == "neg":
            return [r.scale(-1.0) for r in self.bound(t[1], not upper)]
        if op in ("add", "iadd", "sub", "isub"):
            a = self.bound(t[1], upper)
            if op in ("sub", "isub"):
                b = [r.scale(-1.0) for r in self.bound(t[2], not upper)]
            else:
                b = self.bound(t[2], upper)
            L = max(len(a), len(b))
            a, b = self.bc(a, L), self.bc(b, L)
            return [x + y for x, y in zip(a, b)]
        if op in ("smul", "mulr", "imul", "div", "idiv"):
            if op == "smul":
                a, inner = t[1], t[2]
            elif op in ("div", "idiv"):
                a, inner = 1.0 / t[2], t[1]
            else:
                a, inner = t[2], t[1]
            rows = self.bound(inner, upper if a >= 0 else not upper)
            return [r.scale(a) for r in rows]
        if op == "matmul":
            A = np.array(t[1], dtype=float)
            rows = self.bound(t[2], upper)          # affine: exact
            out = []
            for i in range(A.shape[0]):
                r = Row()
                for j in range(A.shape[1]):
                    r = r + rows[j].scale(A[i, j])
                out.append(r)
            return out
        if op == "vmul":
            rows = self.bound(t[1], upper)
            return [rows[0].scale(a) for a in t[2]]
        if op == "index":
            rows = self.bound(t[1], upper)
            idx = rm.norm_key(t[2], len(rows))
            return [rows[i] for i in idx]
        if op == "sum":
            rows = self.bound(t[1], upper)
            r = Row()
            for x in rows:
                r = r + x
            return [r]
        if op == "dot":
            rows = self.bound(t[2], upper)
            r = Row()
            for a, x in zip(t[1], rows):
                r = r + x.scale(a)
            return [r]
        if op in ("max", "min", "abs"):
            if op == "abs":
                args = [t[1], ["neg", t[1]]]
                ismax = True
            else:
                args = t[1]
                ismax = op == "max"
            if ismax != upper:
                raise AssertionError("non-convex use of %s" % op)
            parts = [self.bound(a, upper) for a in args]
            if len(parts) == 1 and op != "abs":
                u = self.newvars(1)
                for r in parts[0]:
                    self.ub.append((r + u[0].scale(-1.0)) if ismax else (u[0] + r.scale(-1.0)))
                return u
            L = max(len(p) for p in parts)
            u = self.newvars(L)
            for p in parts:
                p = self.bc(p, L)
                for i in range(L):
                    self.ub.append((p[i] + u[i].scale(-1.0)) if ismax else (u[i] + p[i].scale(-1.0)))
            return u
        raise AssertionError(op)


def dense(rows, ncols):
    A = np.zeros((len(rows), ncols))
    k = np.zeros(len(rows))
    for i, r in enumerate(rows):
        for j, v in r.c.items():
            A[i, j] += v
        k[i] = r.k
    return A, k


def solve_problem(lens, objective, ineqs, eqs, weights=None, box=None):
    """minimize objective (convex tree, length 1) s.t. t <= 0 for t in ineqs (convex trees), t == 0 for t in eqs.

    weights: optional dict(ineq=[lambda vectors], eq=[nu vectors]) -> minimise the Lagrangian instead
    (constraints moved into the objective with the given multipliers); box: optional (center, radius) restricting x.
    Returns (status, value, x) with status in {'optimal','infeasible','unbounded','other'}."""
    from scipy.optimize import linprog
    B = Builder(lens)
    obj = B.bound(objective, True)
    assert len(obj) == 1
    orow = obj[0]
    if weights is None:
        for t in ineqs:
            for r in B.bound(t, True):
                B.ub.append(r)
        for t in eqs:
            for r in B.bound(t, True):
                B.eq.append(r)
    else:
        for t, lam in zip(ineqs, weights["ineq"]):
            rows = B.bound(t, True)
            lam = np.atleast_1d(lam)
            for r, l in zip(rows, B.bc(list(lam), len(rows)) if len(lam) == 1 else lam):
                orow = orow + r.scale(float(l))
        for t, nu in zip(eqs, weights["eq"]):
            rows = B.bound(t, True)
            for r, l in zip(rows, np.atleast_1d(nu)):
                orow = orow + r.scale(float(l))
    n = B.ncols
    c, c0 = dense([orow], n)
    Aub, kub = dense(B.ub, n)
    Aeq, keq = dense(B.eq, n)
    bounds = [(None, None)] * n
    if box is not None:
        ctr, rad = box
        bounds = [(ctr[j] - rad, ctr[j] + rad) for j in range(B.off[-1])] + [(None, None)] * (n - int(B.off[-1]))
    res = linprog(c[0], A_ub=Aub if len(B.ub) else None, b_ub=-kub if len(B.ub) else None,
                  A_eq=Aeq if len(B.eq) else None, b_eq=-keq if len(B.eq) else None, bounds=bounds, method="highs")
    st = {0: "optimal", 2: "infeasible", 3: "unbounded"}.get(res.status, "other")
    if st == "optimal":
        return st, float(res.fun + c0[0]), res.x[:int(B.off[-1])]
    return st, None, None
