"""Worker process: python -m vlib.worker <ID> --mode search|replay …  (run with the overlay on PYTHONPATH)"""
import os, sys, json, argparse, importlib, time, traceback


class Ctx:
    def __init__(self, a, pid):
        self.pid = pid
        self.part = a.part
        self.tier = a.tier
        self.base_seed = a.seed
        self.windex = a.windex
        self.nworkers = a.nworkers
        self.scale = a.scale
        self.seed = a.seed * 1000 + a.windex + (hash_part(a.part) % 97) * 100000
        self.out = a.out
        self._cur = a.out + ".cur"

    def n(self, quick, thorough):
        """Per-worker example count from total quick/thorough budgets."""
        tot = quick if self.tier == "quick" else thorough
        return max(1, int(tot * self.scale / self.nworkers))

    def journal(self, case):
        """Records the case about to be executed in a shared file mapping (no system call per case); the data
        survive the death of the process and are read by the runner."""
        import mmap
        if getattr(self, "_mm", None) is None:
            fd = os.open(self._cur, os.O_RDWR | os.O_CREAT | os.O_TRUNC)
            os.ftruncate(fd, 1 << 18)
            self._mm = mmap.mmap(fd, 1 << 18)
            os.close(fd)
        b = json.dumps(case, default=repr).encode()
        if len(b) > (1 << 18) - 16:
            b = json.dumps({"truncated": True, "head": b[:4000].decode(errors="replace")}).encode()
        self._mm[8:8 + len(b)] = b
        self._mm[0:8] = len(b).to_bytes(8, "little")

    def known_active(self, slug):
        from vlib.harness import load_known
        return any(k["slug"] == slug and k["status"] == "known" for k in load_known(self.pid))


# modules whose branch coverage guides the 'fuzz*' parts (pure Python; the C extension is not instrumented)
FUZZ_MODULES = {"C11": ["cvxopt.modeling"], "C12": ["cvxopt.modeling"], "C13": ["cvxopt.modeling"],
                "C14": ["cvxopt.modeling"]}


def hash_part(s):
    h = 0
    for ch in s:
        h = (h * 131 + ord(ch)) % 1000003
    return h


def main():
    ap = argparse.ArgumentParser()
    ap.add_argument("pid")
    ap.add_argument("--mode", default="search")
    ap.add_argument("--part", default=None)
    ap.add_argument("--tier", default="quick")
    ap.add_argument("--seed", type=int, default=1)
    ap.add_argument("--windex", type=int, default=0)
    ap.add_argument("--nworkers", type=int, default=1)
    ap.add_argument("--scale", type=float, default=1.0)
    ap.add_argument("--files", nargs="*", default=[])
    ap.add_argument("--out", required=True)
    a = ap.parse_args()
    from checks.registry import REGISTRY
    import checks.registry_data  # noqa
    from vlib.harness import Stats, Violation
    R = REGISTRY[a.pid]
    # make sure the overlay (not the wheel) is what we test
    if a.mode == "search" and (a.part or "").startswith("fuzz"):
        # coverage-guided parts: the pure-Python layers are imported under atheris' instrumentation first
        from vlib.harness import instrument_for_fuzz
        instrument_for_fuzz(FUZZ_MODULES.get(a.pid, ["cvxopt.modeling"]))
    import cvxopt
    ov = os.environ.get("VERIF_OVERLAY")
    if ov and not os.path.abspath(cvxopt.__file__).startswith(os.path.abspath(ov)):
        print("worker imported cvxopt from %s, expected overlay %s" % (cvxopt.__file__, ov))
        sys.exit(3)
    mod = importlib.import_module("checks." + R["module"])
    ctx = Ctx(a, a.pid)
    stats = Stats()
    violations = []
    if a.mode == "search":
        violations = mod.search(ctx, stats) or []
    elif a.mode == "replay":
        for f in a.files:
            with open(f) as fh:
                rf = json.load(fh)
            ctx.journal(rf["case"])
            try:
                msg = mod.replay(rf["case"], rf.get("part") or a.part)
            except Violation as v:
                msg = v.msg
            if msg:
                violations.append(dict(part=a.part, case=rf["case"], msg=msg, file=f))
    res = dict(stats=stats.dump(), violations=violations)
    with open(a.out + ".tmp", "w") as fh:
        json.dump(res, fh, default=repr)
    os.replace(a.out + ".tmp", a.out)
    if os.path.exists(a.out + ".cur"):
        os.unlink(a.out + ".cur")


if __name__ == "__main__":
    main()
