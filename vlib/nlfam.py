"""Families of smooth convex functions for cpl / cp / gp, implemented in numpy and handed to cvxopt as callbacks.
Every function object: dom(x) -> bool, val(x), grad(x) (1-D), hess(x) (n x n)."""
import numpy as np
from hypothesis import strategies as st


def dy(lo=-4, hi=4, den=2):
    return st.integers(lo, hi).map(lambda k: k / float(den))


class Quad:
    """0.5 x'Qx + r'x + t with Q = B B'."""
    kind = "quad"

    def __init__(self, B, r, t=0.0):
        B = np.array(B, dtype=float)
        self.Q = B @ B.T
        self.r = np.array(r, dtype=float)
        self.t = t

    def dom(self, x):
        return True

    def val(self, x):
        return 0.5 * float(x @ self.Q @ x) + float(self.r @ x) + self.t

    def grad(self, x):
        return self.Q @ x + self.r

    def hess(self, x):
        return self.Q


class LSE:
    """log sum_i exp(F_i x + g_i)."""
    kind = "lse"

    def __init__(self, F, g, t=0.0):
        self.F = np.array(F, dtype=float)
        self.g = np.array(g, dtype=float)
        self.t = t

    def dom(self, x):
        return True

    def _w(self, x):
        y = self.F @ x + self.g
        m = float(np.max(y))
        e = np.exp(y - m)
        return m, e, float(np.sum(e))

    def val(self, x):
        m, e, s = self._w(x)
        return m + np.log(s) + self.t

    def grad(self, x):
        m, e, s = self._w(x)
        return self.F.T @ (e / s)

    def hess(self, x):
        m, e, s = self._w(x)
        p = e / s
        return self.F.T @ (np.diag(p) - np.outer(p, p)) @ self.F


class LogBarrier:
    """-sum_i log(b_i - a_i'x), domain a_i'x < b_i."""
    kind = "logbar"

    def __init__(self, A, b, t=0.0):
        self.A = np.array(A, dtype=float)
        self.b = np.array(b, dtype=float)
        self.t = t

    def dom(self, x):
        return bool(np.all(self.b - self.A @ x > 0))

    def val(self, x):
        return -float(np.sum(np.log(self.b - self.A @ x))) + self.t

    def grad(self, x):
        return self.A.T @ (1.0 / (self.b - self.A @ x))

    def hess(self, x):
        d = 1.0 / (self.b - self.A @ x)
        return self.A.T @ np.diag(d * d) @ self.A


class InvPos:
    """sum_j w_j / (x_j - l_j) on the domain x > l (w >= 0) plus a small quadratic for strict convexity."""
    kind = "inv"

    def __init__(self, w, l, t=0.0):
        self.w = np.array(w, dtype=float)
        self.l = np.array(l, dtype=float)
        self.t = t

    def dom(self, x):
        return bool(np.all(x - self.l > 0))

    def val(self, x):
        return float(np.sum(self.w / (x - self.l))) + self.t

    def grad(self, x):
        return -self.w / (x - self.l) ** 2

    def hess(self, x):
        return np.diag(2.0 * self.w / (x - self.l) ** 3)


class XLogX:
    """sum_j (x_j - l_j) log(x_j - l_j), domain x > l."""
    kind = "xlogx"

    def __init__(self, l, t=0.0):
        self.l = np.array(l, dtype=float)
        self.t = t

    def dom(self, x):
        return bool(np.all(x - self.l > 0))

    def val(self, x):
        u = x - self.l
        return float(np.sum(u * np.log(u))) + self.t

    def grad(self, x):
        return np.log(x - self.l) + 1.0

    def hess(self, x):
        return np.diag(1.0 / (x - self.l))


class Robust:
    """sum_i sqrt(rho + (a_i'x - b_i)^2)."""
    kind = "robust"

    def __init__(self, A, b, rho, t=0.0):
        self.A = np.array(A, dtype=float)
        self.b = np.array(b, dtype=float)
        self.rho = rho
        self.t = t

    def dom(self, x):
        return True

    def val(self, x):
        y = self.A @ x - self.b
        return float(np.sum(np.sqrt(self.rho + y * y))) + self.t

    def grad(self, x):
        y = self.A @ x - self.b
        return self.A.T @ (y / np.sqrt(self.rho + y * y))

    def hess(self, x):
        y = self.A @ x - self.b
        w = np.sqrt(self.rho + y * y)
        return self.A.T @ np.diag(self.rho / w ** 3) @ self.A


@st.composite
def func_prims(draw, n, kinds=("quad", "lse", "logbar", "inv", "xlogx", "robust")):
    kind = draw(st.sampled_from(kinds))
    m = draw(st.integers(1, 3))
    p = dict(kind=kind)
    if kind == "quad":
        r = draw(st.integers(0, n))
        p["B"] = [[draw(dy()) for _ in range(r)] for _ in range(n)]
        p["r"] = [draw(dy()) for _ in range(n)]
    elif kind == "lse":
        p["F"] = [[draw(dy(-2, 2)) for _ in range(n)] for _ in range(m)]
        p["g"] = [draw(dy(-2, 2)) for _ in range(m)]
    elif kind == "logbar":
        p["A"] = [[draw(dy()) for _ in range(n)] for _ in range(m)]
        p["margin"] = [draw(st.sampled_from([1.0, 2.0, 4.0])) for _ in range(m)]
    elif kind == "inv":
        p["w"] = [draw(st.integers(0, 4)) / 2.0 for _ in range(n)]
        p["margin"] = [draw(st.sampled_from([1.0, 2.0, 4.0])) for _ in range(n)]
    elif kind == "xlogx":
        p["margin"] = [draw(st.sampled_from([1.0, 2.0, 4.0])) for _ in range(n)]
    else:
        p["A"] = [[draw(dy()) for _ in range(n)] for _ in range(m)]
        p["b"] = [draw(dy()) for _ in range(m)]
        p["rho"] = draw(st.sampled_from([0.25, 1.0, 4.0]))
    return p


def build(p, n, xstar):
    """Materialise a function object; restricted domains are placed so that xstar is at distance >= margin inside."""
    k = p["kind"]
    xstar = np.array(xstar, dtype=float)
    if k == "quad":
        B = np.array(p["B"], dtype=float).reshape((n, -1))
        return Quad(B, p["r"])
    if k == "lse":
        return LSE(p["F"], p["g"])
    if k == "logbar":
        A = np.array(p["A"], dtype=float).reshape((-1, n))
        return LogBarrier(A, A @ xstar + np.array(p["margin"]))
    if k == "inv":
        return InvPos(p["w"], xstar - np.array(p["margin"]))
    if k == "xlogx":
        return XLogX(xstar - np.array(p["margin"]))
    return Robust(np.array(p["A"], dtype=float).reshape((-1, n)), p["b"], p["rho"])
