"""Cone algebra in numpy, written from the definitions in doc/source/coneprog.rst.
Never calls cvxopt.  Vectors are 1-D float arrays in the stacked ('l','q','s')
layout, 's' blocks stored as full m*m column-major matrices of which only the
lower triangle is meaningful (the strictly upper part is unspecified storage)."""
import numpy as np


def cdim(dims, mnl=0):
    return mnl + dims["l"] + sum(dims["q"]) + sum(m * m for m in dims["s"])


def blocks(dims, mnl=0):
    """[(kind, start, m)]; for 's' the block occupies m*m entries."""
    out = []
    ind = 0
    if mnl:
        out.append(("nl", 0, mnl))
        ind = mnl
    out.append(("l", ind, dims["l"]))
    ind += dims["l"]
    for m in dims["q"]:
        out.append(("q", ind, m))
        ind += m
    for m in dims["s"]:
        out.append(("s", ind, m))
        ind += m * m
    return out


def smat(v, ind, m):
    """Symmetric m x m matrix defined by the lower triangle of the column-major block at v[ind:]."""
    M = np.array(v[ind:ind + m * m], dtype=float).reshape((m, m), order="F")
    L = np.tril(M)
    return L + np.tril(M, -1).T


def symvec(v, dims, mnl=0):
    """Copy of v in which every 's' block is the full symmetric matrix of its lower triangle."""
    v = np.array(v, dtype=float).copy()
    for kind, ind, m in blocks(dims, mnl):
        if kind == "s" and m:
            v[ind:ind + m * m] = smat(v, ind, m).reshape(-1, order="F")
    return v


def symcols(G, dims, mnl=0):
    G = np.array(G, dtype=float)
    if G.ndim == 1:
        return symvec(G, dims, mnl)
    out = G.copy()
    for j in range(G.shape[1]):
        out[:, j] = symvec(G[:, j], dims, mnl)
    return out


def sdot(x, y, dims, mnl=0):
    return float(np.dot(symvec(x, dims, mnl), symvec(y, dims, mnl)))


def snrm2(x, dims, mnl=0):
    return float(np.linalg.norm(symvec(x, dims, mnl)))


def min_slack(x, dims, mnl=0):
    """Largest t with x - t*e in the cone (e the identity of the cone); +inf for an empty cone."""
    t = np.inf
    for kind, ind, m in blocks(dims, mnl):
        if kind in ("l", "nl"):
            if m:
                t = min(t, float(np.min(x[ind:ind + m])))
        elif kind == "q":
            t = min(t, float(x[ind] - np.linalg.norm(x[ind + 1:ind + m])))
        elif m:
            t = min(t, float(np.linalg.eigvalsh(smat(x, ind, m))[0]))
    return t


def lower_mask(dims, mnl=0):
    """Boolean mask of the positions that carry information ('s' blocks: lower triangles)."""
    n = cdim(dims, mnl)
    mask = np.ones(n, dtype=bool)
    for kind, ind, m in blocks(dims, mnl):
        if kind == "s":
            for j in range(m):
                for i in range(j):
                    mask[ind + i + j * m] = False
    return mask


# ----------------------------------------------------------------- scaling W

def W_from_cvxopt(W):
    """Convert a cvxopt scaling dictionary to numpy arrays."""
    out = {}
    for k in ("d", "di", "dnl", "dnli"):
        if k in W:
            out[k] = np.array(list(W[k]), dtype=float)
    out["beta"] = [float(b) for b in W["beta"]]
    out["v"] = [np.array(list(v), dtype=float) for v in W["v"]]
    out["r"] = [np.array(list(r), dtype=float).reshape(r.size, order="F") for r in W["r"]]
    out["rti"] = [np.array(list(r), dtype=float).reshape(r.size, order="F") for r in W["rti"]]
    return out


def apply_W(W, x, dims, trans="N", inverse="N", mnl=0, use_inverse_fields=True):
    """W*x, W'*x, W^{-1}*x or W^{-T}*x from the documented block formulas.

    's' blocks of x are interpreted through their lower triangle; the result
    has full symmetric 's' blocks.  With use_inverse_fields=False the inverse
    is computed from d, beta, v, r only (not from di, rti)."""
    x = symvec(x, dims, mnl)
    y = x.copy()
    iq = 0
    isx = 0
    for kind, ind, m in blocks(dims, mnl):
        if kind == "nl":
            if inverse == "N":
                y[ind:ind + m] = W["dnl"] * x[ind:ind + m]
            else:
                y[ind:ind + m] = (W["dnli"] if use_inverse_fields else 1.0 / W["dnl"]) * x[ind:ind + m]
        elif kind == "l":
            if inverse == "N":
                y[ind:ind + m] = W["d"] * x[ind:ind + m]
            else:
                y[ind:ind + m] = (W["di"] if use_inverse_fields else 1.0 / W["d"]) * x[ind:ind + m]
        elif kind == "q":
            v = W["v"][iq]
            beta = W["beta"][iq]
            iq += 1
            J = np.ones(m)
            J[1:] = -1.0
            u = x[ind:ind + m]
            if inverse == "N":
                y[ind:ind + m] = beta * (2.0 * v * np.dot(v, u) - J * u)
            else:
                Jv = J * v
                y[ind:ind + m] = (2.0 * Jv * np.dot(Jv, u) - J * u) / beta
        else:
            r = W["r"][isx]
            rti = W["rti"][isx]
            isx += 1
            if m == 0:
                continue
            U = x[ind:ind + m * m].reshape((m, m), order="F")
            if inverse == "N":
                R = r.T @ U @ r if trans == "N" else r @ U @ r.T
            else:
                if use_inverse_fields:
                    ri = rti.T            # r^{-1}
                else:
                    ri = np.linalg.inv(r)
                # W^{-1}: r^{-T} U r^{-1};  W^{-T}: r^{-1} U r^{-T}
                R = ri.T @ U @ ri if trans == "N" else ri @ U @ ri.T
            y[ind:ind + m * m] = R.reshape(-1, order="F")
    return y


def check_W(W, dims, mnl=0, tol=1e-9):
    """Documented invariants of a scaling; returns list of messages (empty if fine)."""
    msgs = []
    for a, b in (("d", "di"), ("dnl", "dnli")):
        if a in W:
            d, di = W[a], W[b]
            if len(d) and not np.all(d > 0):
                msgs.append("%s not positive: %r" % (a, d.tolist()))
            if len(d) and np.max(np.abs(d * di - 1.0)) > tol:
                msgs.append("%s*%s != 1: %r" % (a, b, (d * di).tolist()))
    if len(W["d"]) != dims["l"]:
        msgs.append("len(d) = %d != dims['l'] = %d" % (len(W["d"]), dims["l"]))
    if len(W["v"]) != len(dims["q"]) or len(W["beta"]) != len(dims["q"]):
        msgs.append("number of 'q' factors wrong")
    for k, (v, beta) in enumerate(zip(W["v"], W["beta"])):
        if not beta > 0:
            msgs.append("beta[%d] = %r not positive" % (k, beta))
        if not v[0] > 0:
            msgs.append("v[%d][0] = %r not positive" % (k, v[0]))
        vjv = v[0] ** 2 - float(np.dot(v[1:], v[1:]))
        if abs(vjv - 1.0) > tol * max(1.0, float(np.dot(v, v))):
            msgs.append("v[%d]'Jv - 1 = %g (|v|^2 = %g)" % (k, vjv - 1.0, float(np.dot(v, v))))
    if len(W["r"]) != len(dims["s"]):
        msgs.append("number of 's' factors wrong")
    for k, (r, rti) in enumerate(zip(W["r"], W["rti"])):
        m = r.shape[0]
        if m == 0:
            continue
        E = r.T @ rti - np.eye(m)
        sc = np.linalg.norm(r, 2) * np.linalg.norm(rti, 2)
        if not np.all(np.isfinite(E)) or np.max(np.abs(E)) > tol * max(1.0, sc):
            msgs.append("r[%d]'*rti[%d] - I = %g (scale %g)" % (k, k, float(np.max(np.abs(E))), sc))
    return msgs


def lmbda_full(lmbda, dims, mnl=0):
    """Expand the packed scaled variable lambda ('s' blocks stored as their diagonal) to a full vector."""
    lmbda = np.array(lmbda, dtype=float)
    n = mnl + dims["l"] + sum(dims["q"])
    out = list(lmbda[:n])
    ind = n
    for m in dims["s"]:
        out += list(np.diag(lmbda[ind:ind + m]).reshape(-1, order="F"))
        ind += m
    return np.array(out, dtype=float)


# ----------------------------------------------------------------- matrices

def to_np(M):
    """cvxopt dense/sparse matrix -> numpy 2-D array (or None)."""
    if M is None:
        return None
    from cvxopt import matrix
    D = matrix(M)
    a = np.array(list(D), dtype=complex if D.typecode == "z" else float)
    return a.reshape(D.size, order="F")


def vec(M):
    if M is None:
        return None
    return to_np(M).reshape(-1, order="F")
