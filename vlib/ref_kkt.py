"""Dense numpy reference for the KKT system of coneprog.rst, in isometric packed
coordinates (off-diagonal entries of 's' blocks weighted by sqrt(2), so that the
S inner product becomes the ordinary dot product)."""
import numpy as np
from vlib import ref_cone as rc

SQ2 = np.sqrt(2.0)


def pack_index(dims, mnl=0):
    """List of (full_index_lower, full_index_upper_or_None, weight) per packed coordinate."""
    idx = []
    for kind, ind, m in rc.blocks(dims, mnl):
        if kind in ("l", "nl", "q"):
            for i in range(m):
                idx.append((ind + i, None))
        else:
            for j in range(m):
                for i in range(j, m):
                    idx.append((ind + i + j * m, None if i == j else ind + j + i * m))
    return idx


def pack_matrix(dims, mnl=0):
    """Epk (Npk x N): packed = Epk @ symvec(full);  Eun (N x Npk): full symmetric = Eun @ packed."""
    idx = pack_index(dims, mnl)
    N = rc.cdim(dims, mnl)
    Epk = np.zeros((len(idx), N))
    Eun = np.zeros((N, len(idx)))
    for k, (lo, up) in enumerate(idx):
        if up is None:
            Epk[k, lo] = 1.0
            Eun[lo, k] = 1.0
        else:
            Epk[k, lo] = SQ2          # uses the lower-triangular entry only
            Eun[lo, k] = 1.0 / SQ2
            Eun[up, k] = 1.0 / SQ2
    return Epk, Eun


def W_packed(Wn, dims, mnl=0, trans="N", inverse="N", use_inverse_fields=True):
    Epk, Eun = pack_matrix(dims, mnl)
    Npk = Epk.shape[0]
    M = np.zeros((Npk, Npk))
    for k in range(Npk):
        M[:, k] = Epk @ rc.apply_W(Wn, Eun[:, k], dims, trans=trans, inverse=inverse, mnl=mnl,
                                   use_inverse_fields=use_inverse_fields)
    return M


def kkt_matrix(Gs, A, Wn, dims, P=None, mnl=0):
    """K = [P A' G^'; A 0 0; G^ 0 -W^'W^] in packed coordinates (G^ = pack(G))."""
    Epk, Eun = pack_matrix(dims, mnl)
    n = Gs.shape[1]
    p = A.shape[0]
    Gp = Epk @ Gs
    Wp = W_packed(Wn, dims, mnl, use_inverse_fields=False)
    Npk = Gp.shape[0]
    K = np.zeros((n + p + Npk, n + p + Npk))
    if P is not None:
        K[:n, :n] = P
    K[:n, n:n + p] = A.T
    K[n:n + p, :n] = A
    K[:n, n + p:] = Gp.T
    K[n + p:, :n] = Gp
    K[n + p:, n + p:] = -Wp.T @ Wp
    return K, Gp, Wp, Epk, Eun


def solve_kkt(Gs, A, Wn, dims, bx, by, bz, P=None, mnl=0):
    """Returns (ux, uy, W*uz as full symmetric vector, K, rhs)."""
    K, Gp, Wp, Epk, Eun = kkt_matrix(Gs, A, Wn, dims, P, mnl)
    rhs = np.concatenate([bx, by, Epk @ rc.symvec(bz, dims, mnl)])
    u = np.linalg.solve(K, rhs)
    n, p = Gs.shape[1], A.shape[0]
    ux, uy, uzp = u[:n], u[n:n + p], u[n + p:]
    return ux, uy, Eun @ (Wp @ uzp), K, rhs


def kkt_residual(Gs, A, Wn, dims, bx, by, bz, ux, uy, wuz, P=None, mnl=0):
    """Backward error of a returned (ux, uy, W*uz): ||K u - b|| / (||K|| ||u|| + ||b||)."""
    K, Gp, Wp, Epk, Eun = kkt_matrix(Gs, A, Wn, dims, P, mnl)
    # uz = W^{-1} (W uz): solve in packed coordinates
    wp = Epk @ rc.symvec(wuz, dims, mnl)
    uzp = np.linalg.solve(Wp, wp) if len(wp) else wp
    u = np.concatenate([ux, uy, uzp])
    rhs = np.concatenate([bx, by, Epk @ rc.symvec(bz, dims, mnl)])
    res = K @ u - rhs
    denom = np.linalg.norm(K, 2) * np.linalg.norm(u) + np.linalg.norm(rhs) if K.size else 1.0
    return float(np.linalg.norm(res)) / max(denom, 1e-300), K


def make_kktsolver(Gs, A, dims, P=None, mnl=0, counter=None):
    """A user `kktsolver(W)` for conelp/coneqp built on numpy (dense solve)."""
    from cvxopt import matrix

    def kktsolver(W):
        Wn = rc.W_from_cvxopt(W)
        K, Gp, Wp, Epk, Eun = kkt_matrix(Gs, A, Wn, dims, P, mnl)
        if counter is not None:
            counter["factor"] = counter.get("factor", 0) + 1
        try:
            Kinv_lu = np.linalg.inv(K) if K.size else K
        except np.linalg.LinAlgError:
            raise ArithmeticError("singular KKT matrix")
        if K.size and not np.all(np.isfinite(Kinv_lu)):
            raise ArithmeticError("singular KKT matrix")

        def f(x, y, z):
            if counter is not None:
                counter["solve"] = counter.get("solve", 0) + 1
            bx = np.array(list(x), dtype=float)
            by = np.array(list(y), dtype=float)
            bz = np.array(list(z), dtype=float)
            rhs = np.concatenate([bx, by, Epk @ rc.symvec(bz, dims, mnl)])
            u = np.linalg.solve(K, rhs) if K.size else rhs
            n, p = len(bx), len(by)
            x[:] = matrix(u[:n].tolist(), (n, 1), "d") if n else x
            if p:
                y[:] = matrix(u[n:n + p].tolist(), (p, 1), "d")
            wz = Eun @ (Wp @ u[n + p:])
            if len(wz):
                z[:] = matrix(wz.tolist(), (len(wz), 1), "d")
        return f
    return kktsolver
