#!/venv/bin/python
"""Regenerate MANIFEST.json from checks/registry_data.py and tools/not_applicable.json."""
import os, sys, json
V = os.path.dirname(os.path.dirname(os.path.abspath(__file__)))
sys.path.insert(0, V)
from checks.registry import REGISTRY
import checks.registry_data  # noqa

props = [json.loads(l) for l in open(os.path.join(V, "properties.jsonl"))]
na_reasons = json.load(open(os.path.join(V, "tools", "not_applicable.json")))
checks = []
for p in props:
    pid = p["id"]
    if pid not in REGISTRY:
        continue
    R = REGISTRY[pid]
    checks.append(dict(
        property_id=pid,
        quick_cmd="./check %s --tier quick" % pid,
        thorough_cmd="./check %s --tier thorough" % pid,
        evidence_file="evidence/%s.json" % pid,
        replay_cmd_template="./check %s --replay {path}" % pid,
        engine="hypothesis-runner",
        level_claimed=dict(category=R["level"], text=R["level_text"], design_ref="DESIGN.md " + R["design_ref"]),
        level_note=R["level_note"],
        technique=R["technique"]))
na = [dict(property_id=p["id"], reason=na_reasons.get(p["id"], "check not built yet (work in progress; see DESIGN.md section 7)"))
      for p in props if p["id"] not in REGISTRY]
man = dict(
    version=1,
    setup_cmd="/venv/bin/pip install -q --no-index --find-links /opt/veriftools/wheels --target /verif/.deps --upgrade numpy scipy atheris jsonschema hypothesis",
    hooks=dict(guard="CVXOPT_VERIF",
               enable="no source hooks: checks build an overlay package from /repo's working tree (vlib/build.py); "
                      "faults are injected through the public kktsolver= callable and by wrapping cvxopt.misc in the harness",
               baseline_off_cmd="/verif/tools/baseline.sh",
               source_commits=[], add_only=True),
    engines=[dict(name="hypothesis-runner", path="check",
                  serves_properties=[c["property_id"] for c in checks],
                  kind_free_text="Hypothesis 6.168 generators driven by ./check over 16 worker processes against an "
                                 "overlay build of /repo; explicit oracles per property; JSON replay files")],
    checks=checks,
    notes="Every check rebuilds cvxopt from /repo's working tree (the copy in /venv is the PyPI wheel). "
          "Exit 2 + HARNESS-ERROR means the harness itself failed (e.g. the tree does not compile), never a verdict.",
    not_applicable=na)
json.dump(man, open(os.path.join(V, "MANIFEST.json"), "w"), indent=1)
try:
    sys.path.insert(0, os.path.join(V, ".deps"))
    import jsonschema
    jsonschema.validate(man, json.load(open("/root/.vp/MANIFEST.schema.json")))
    print("MANIFEST.json valid; %d checks, %d not_applicable" % (len(checks), len(na)))
except ImportError:
    print("written (jsonschema unavailable)")
