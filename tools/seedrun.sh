#!/bin/sh
# tools/seedrun.sh <seeded-dir-name> <CHECK> [check args]  -- runs a check against a scratch copy of /repo/src with the
# seeded patch applied (does not touch /repo); exit code of the check
S=/verif/seeded/$1; shift
C=$1; shift
D=$(mktemp -d /var/tmp/seedrun-XXXXXX)
cp -r /repo/src "$D/"
(cd "$D" && patch -s -p1 < "$S/patch.diff") || { echo "patch failed"; rm -rf "$D"; exit 3; }
cd /verif && VERIF_REPO="$D" ./check "$C" --tier quick --no-evidence "$@" 2>&1 | grep -v "On entry\|WARNING\|KNOWN-FINDING" | tail -2 | cut -c1-500
rm -rf "$D"
