#!/bin/sh
# re-validate older seeded changes against the current checks
for p in "$@"; do
  for k in 1 2 3 4 5 6; do
    s=$p-$k
    [ -f /verif/seeded/$s/patch.diff ] || continue
    out=$(/verif/tools/seedrun.sh $s $p 2>&1 | tail -3)
    if echo "$out" | grep -q "VIOLATION"; then echo "$s caught"; elif echo "$out" | grep -q "patch failed"; then echo "$s patch-no-longer-applies"; else echo "$s MISSED: $(echo "$out" | tail -1 | cut -c1-150)"; fi
    rm -f /verif/replays/$p/viol-*.json
  done
done
