#!/bin/sh
# dev helper: tools/dev.sh <ID> [scale] [seed] [part]  -- runs one in-process worker against /var/tmp/ov (not a registered command)
ID=$1; SCALE=${2:-0.05}; SEED=${3:-1}; PART=${4:-}
cd /verif
PYTHONPATH=/var/tmp/ov:/verif/.deps:/verif PYTHONHASHSEED=0 OPENBLAS_NUM_THREADS=1 VERIF_OVERLAY=/var/tmp/ov \
/venv/bin/python - "$ID" "$SCALE" "$SEED" "$PART" <<'PY'
import sys, json, importlib, time
from checks.registry import REGISTRY
import checks.registry_data
from vlib.harness import Stats
from vlib.worker import Ctx
pid, scale, seed, part = sys.argv[1], float(sys.argv[2]), int(sys.argv[3]), sys.argv[4]
R = REGISTRY[pid]
class A: pass
a = A(); a.part = part or R["parts"][0][0]; a.tier="quick"; a.seed=seed; a.windex=0; a.nworkers=1; a.scale=scale; a.out="/var/tmp/dev-out.json"
ctx = Ctx(a, pid); st = Stats(); t=time.time()
mod = importlib.import_module("checks."+R["module"])
v = mod.search(ctx, st)
print("evaluations", st.evaluations, "nontrivial", len(st.nontrivial), "time %.1fs" % (time.time()-t))
for k in sorted(st.hist): print("  %-40s %d" % (k, st.hist[k]))
print("excluded", st.excluded_known, "extra", st.extra)
for x in v or []:
    print("VIOLATION:", x["msg"][:2000]); print(json.dumps(x["case"])[:3000])
PY
