#!/bin/sh
# agent_build.sh <source tree> <overlay dir>: builds the cvxopt sources of <source tree> (working tree) into
# <overlay dir>/cvxopt so that `PYTHONPATH=<overlay dir> /venv/bin/python` imports THAT tree, not the wheel in /venv.
# (copied to /var/tmp for the sub-agents; contains nothing of the checks)
set -e
SRC=$1; OV=$2
W=/venv/lib/python3.12/site-packages
SUF=.cpython-312-x86_64-linux-gnu.so
mkdir -p "$OV/cvxopt"
cp "$SRC"/src/python/*.py "$OV/cvxopt/"
[ -f "$OV/cvxopt/_version.py" ] || printf "__version__ = version = '0+scratch'\n__version_tuple__ = version_tuple = (0,)\n" > "$OV/cvxopt/_version.py"
for m in cholmod umfpack amd glpk dsdp gsl fftw; do cp "$W/cvxopt/$m$SUF" "$OV/cvxopt/"; done
[ -e "$OV/cvxopt.libs" ] || ln -s "$W/cvxopt.libs" "$OV/cvxopt.libs"
INC=$(/venv/bin/python -c "import sysconfig;print(sysconfig.get_paths()['include'])")
C="$SRC/src/C"
F="-fPIC -shared -w -fno-strict-overflow -DNDEBUG -O2 -I$INC -I$C"
gcc $F $C/base.c $C/dense.c $C/sparse.c -o "$OV/cvxopt/base$SUF" -llapack -lblas -lm &
P1=$!
gcc $F $C/blas.c -o "$OV/cvxopt/blas$SUF" -lblas &
P2=$!
gcc $F $C/lapack.c -o "$OV/cvxopt/lapack$SUF" -llapack -lblas &
P3=$!
gcc $F $C/misc_solvers.c -o "$OV/cvxopt/misc_solvers$SUF" -llapack -lblas -lm &
P4=$!
wait $P1; wait $P2; wait $P3; wait $P4
echo "built $OV"
