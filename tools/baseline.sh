#!/bin/sh
# Repository baseline with the guard off (there are no source hooks): builds /repo's working tree into
# an overlay so that the pinned suite tests /repo and not the wheel in /venv, then runs the pinned command.
set -e
OV=$(mktemp -d /verif/.build/baseline-XXXXXX 2>/dev/null || { mkdir -p /verif/.build; mktemp -d /verif/.build/baseline-XXXXXX; })
trap 'rm -rf "$OV"' EXIT
/venv/bin/python /verif/vlib/build.py plain "$OV" >/dev/null
cd /repo && PYTHONPATH="$OV" /venv/bin/python -m pytest -ra -q -p no:cacheprovider --timeout=900 --continue-on-collection-errors "$@"
