#!/venv/bin/python
"""Sensitivity self-test: apply each mutant of mutants/<ID>.json to a scratch copy of /repo/src,
run `./check <ID> --tier quick --no-evidence` against it (VERIF_REPO), expect exit 1 + VIOLATION.

usage: tools/selftest.py ID [mutant-name ...] [--seed N] [--scale F]
Each mutant: {"name":…, "file":"src/python/coneprog.py", "old":…, "new":…, "count":1}
"""
import os, sys, json, shutil, subprocess, tempfile, time
V = os.path.dirname(os.path.dirname(os.path.abspath(__file__)))
REPO = os.environ.get("VERIF_REPO", "/repo")


def main():
    args = [a for a in sys.argv[1:] if not a.startswith("--")]
    opts = {a.split("=")[0]: a.split("=")[1] for a in sys.argv[1:] if a.startswith("--") and "=" in a}
    pid = args[0].upper()
    names = args[1:]
    muts = json.load(open(os.path.join(V, "mutants", pid + ".json")))
    results = []
    for m in muts:
        if names and m["name"] not in names:
            continue
        d = tempfile.mkdtemp(prefix="mut-", dir="/var/tmp")
        try:
            shutil.copytree(os.path.join(REPO, "src"), os.path.join(d, "src"))
            edits = m.get("edits") or [m]
            bad = None
            for e in edits:
                p = os.path.join(d, e["file"])
                s = open(p).read()
                cnt = s.count(e["old"])
                if cnt != e.get("count", 1):
                    bad = cnt
                    break
                s = s.replace(e["old"], e["new"])
                open(p, "w").write(s)
            if bad is not None:
                results.append((m["name"], "PATCH-MISMATCH (%d occurrences)" % bad, 0))
                print("%-40s PATCH-MISMATCH (%d occurrences)" % (m["name"], bad))
                continue
            env = dict(os.environ, VERIF_REPO=d)
            t0 = time.time()
            cmd = [os.path.join(V, "check"), pid, "--tier", "quick", "--no-evidence"]
            if "--seed" in opts:
                cmd += ["--seed", opts["--seed"]]
            if "--scale" in opts:
                cmd += ["--scale", opts["--scale"]]
            if "--parts" in opts:
                cmd += ["--parts", opts["--parts"]]
            r = subprocess.run(cmd, env=env, capture_output=True, text=True)
            viol = [l for l in r.stdout.splitlines() if l.startswith("violation") or l.startswith("regression")]
            verdict = {0: "MISSED", 1: "caught", 2: "HARNESS-ERROR"}.get(r.returncode, "rc=%d" % r.returncode)
            results.append((m["name"], verdict, time.time() - t0))
            print("%-40s %-14s %5.1fs  %s" % (m["name"], verdict, time.time() - t0,
                                              (viol[0][:160] if viol else r.stdout[-300:].replace("\n", " | ") if r.returncode != 1 else "")), flush=True)
        finally:
            shutil.rmtree(d, ignore_errors=True)
    # viol-* files written by mutant runs are not evidence of anything: remove them
    import glob
    for f in glob.glob(os.path.join(V, "replays", pid, "viol-*.json")):
        os.unlink(f)
    missed = [r for r in results if r[1] != "caught"]
    print("%d mutants, %d caught, %d not caught" % (len(results), len(results) - len(missed), len(missed)))
    sys.exit(1 if missed else 0)


if __name__ == "__main__":
    main()
