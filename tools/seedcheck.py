#!/venv/bin/python
"""Confirm a seeded defect delivered by a sub-agent and run my checks against it.

usage: tools/seedcheck.py <agent_worktree> <ID> <k> [CHECK_ID ...] [--seed=N] [--as=K (store as seeded/<ID>-K)]
 1. scratch worktree of /repo HEAD: demo PASSes on clean tree; patch applies; overlay builds; 36 tests pass; demo FAILs
 2. store as /verif/seeded/<ID>-<k>/ (patch.diff, demo.py, meta.json + what I ran)
 3. apply the patch to /repo, run ./check for each CHECK_ID (default: ID), undo (git checkout -- .)
"""
import os, sys, json, shutil, subprocess, tempfile
V = os.path.dirname(os.path.dirname(os.path.abspath(__file__)))


def sh(cmd, **kw):
    return subprocess.run(cmd, shell=True, capture_output=True, text=True, **kw)


def main():
    args = [a for a in sys.argv[1:] if not a.startswith("--")]
    seed = [a.split("=")[1] for a in sys.argv[1:] if a.startswith("--seed=")]
    wt_agent, pid, k = args[0], args[1].upper(), args[2]
    checks = [c.upper() for c in args[3:]] or [pid]
    src = os.path.join(wt_agent, "SEEDED", k)
    store = [a.split("=")[1] for a in sys.argv[1:] if a.startswith("--as=")]
    dst = os.path.join(V, "seeded", "%s-%s" % (pid, store[0] if store else k))
    os.makedirs(dst, exist_ok=True)
    for f in ("patch.diff", "demo.py", "meta.json"):
        shutil.copy(os.path.join(src, f), dst)
    patch = os.path.join(dst, "patch.diff")
    ran = {}
    wt = tempfile.mkdtemp(prefix="seedchk-", dir="/var/tmp")
    os.rmdir(wt)
    try:
        r = sh("git -C /repo worktree add --detach %s HEAD" % wt)
        assert r.returncode == 0, r.stderr
        ov = os.path.join(wt, "ov")
        env = "PYTHONPATH=%s:/var/tmp/pydeps" % ov
        sh("/var/tmp/agent_build.sh %s %s" % (wt, ov))
        r = sh("%s /venv/bin/python %s" % (env, os.path.join(dst, "demo.py")), cwd=wt)
        ran["demo_clean"] = dict(rc=r.returncode, tail=(r.stdout + r.stderr)[-300:])
        r = sh("git -C %s apply %s" % (wt, patch))
        ran["apply"] = dict(rc=r.returncode, err=r.stderr[-300:])
        r = sh("/var/tmp/agent_build.sh %s %s" % (wt, ov))
        ran["build"] = dict(rc=r.returncode, err=r.stderr[-300:])
        r = sh("cd %s && %s /venv/bin/python -m pytest -p no:cacheprovider -o addopts= tests 2>&1 | tail -1" % (wt, env))
        ran["tests_patched"] = r.stdout.strip()
        r = sh("%s /venv/bin/python %s" % (env, os.path.join(dst, "demo.py")), cwd=wt)
        ran["demo_patched"] = dict(rc=r.returncode, tail=(r.stdout + r.stderr)[-400:])
    finally:
        sh("git -C /repo worktree remove --force %s" % wt)
        shutil.rmtree(wt, ignore_errors=True)
    confirmed = (ran["demo_clean"]["rc"] == 0 and ran["apply"]["rc"] == 0 and ran["build"]["rc"] == 0
                 and "36 passed" in ran["tests_patched"] and ran["demo_patched"]["rc"] != 0)
    print("confirmed:", confirmed, json.dumps(ran)[:900])
    results = {}
    if confirmed:
        # the checks run against a scratch copy of /repo's sources with the patch applied (VERIF_REPO), so that /repo itself
        # is never modified while other runs (sweeps, vp run) are building from it
        scr = tempfile.mkdtemp(prefix="seedsrc-", dir="/var/tmp")
        try:
            shutil.copytree("/repo/src", os.path.join(scr, "src"))
            r = sh("cd %s && patch -s -p1 < %s" % (scr, patch))
            assert r.returncode == 0, r.stdout + r.stderr
            for c in checks:
                cmd = "VERIF_REPO=%s %s/check %s --tier quick --no-evidence %s" % (scr, V, c, ("--seed " + seed[0]) if seed else "")
                try:
                    pr = subprocess.Popen(cmd, shell=True, stdout=subprocess.PIPE, stderr=subprocess.PIPE, text=True,
                                          start_new_session=True)
                    so, se = pr.communicate(timeout=1500)
                    r = subprocess.CompletedProcess(cmd, pr.returncode, so, se)
                except subprocess.TimeoutExpired:
                    import signal
                    os.killpg(pr.pid, signal.SIGKILL)
                    results[c] = dict(rc=None, verdict="TIMEOUT", first="check did not finish within 1500 s")
                    print(c, "TIMEOUT")
                    continue
                viol = [l for l in r.stdout.splitlines() if l.startswith("violation") or l.startswith("regression")]
                results[c] = dict(rc=r.returncode, verdict={0: "MISSED", 1: "caught", 2: "HARNESS-ERROR"}.get(r.returncode),
                                  first=(viol[0][:300] if viol else r.stdout[-300:]))
                print(c, results[c]["verdict"], results[c]["first"][:250])
        finally:
            shutil.rmtree(scr, ignore_errors=True)
            import glob
            for c in checks:
                for f in glob.glob(os.path.join(V, "replays", c, "viol-*.json")):
                    os.unlink(f)
    meta = json.load(open(os.path.join(dst, "meta.json")))
    meta["confirmed_by_me"] = confirmed
    meta["what_i_ran"] = ran
    meta["checks_run"] = results
    json.dump(meta, open(os.path.join(dst, "meta.json"), "w"), indent=1)


if __name__ == "__main__":
    main()
